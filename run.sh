#!/bin/sh
# ./run.sh quick|thorough Cxx      ./run.sh replay <file>
HERE="$(cd "$(dirname "$0")" && pwd)"
cd "$HERE" || exit 3
./setup.sh || { echo "setup failed"; exit 3; }
export PYTHONPATH="$HERE" PYTHONDONTWRITEBYTECODE=1 PYTHONHASHSEED=0
PY="$HERE/.venv/bin/python"
case "$1" in
  replay) exec "$PY" -c "import sys; from symx.run import replay; sys.exit(replay(sys.argv[1]))" "$2" ;;
  quick|thorough)
    id="$(echo "$2" | tr 'A-Z' 'a-z')"
    VERIF_TIER="$1" exec "$PY" -m "checks.$id" "$1" ;;
  *) echo "usage: $0 quick|thorough Cxx | replay <file>"; exit 3 ;;
esac
