#!/bin/sh
# Idempotent, offline: overlay venv on top of /venv (the repository's own
# interpreter and dependencies) with z3-solver + crosshair-tool from the wheelhouse.
set -e
HERE="$(cd "$(dirname "$0")" && pwd)"
VENV="$HERE/.venv"
STAMP="$VENV/.ok2"
if [ -f "$STAMP" ]; then exit 0; fi
# serialise concurrent bootstraps (checks may be started in parallel)
exec 9>"$HERE/.setup.lock"
flock 9
if [ -f "$STAMP" ]; then exit 0; fi
rm -rf "$VENV"
/venv/bin/python -m venv "$VENV"
SP="$("$VENV/bin/python" -c 'import sysconfig;print(sysconfig.get_paths()["purelib"])')"
printf "%s\n%s\n" "/venv/lib/python3.12/site-packages" "/repo" > "$SP/zz_overlay.pth"
PIP_NO_INDEX=1 "$VENV/bin/python" -m pip install -q --no-index --find-links /opt/veriftools/wheels z3-solver crosshair-tool >/dev/null
"$VENV/bin/python" -c 'import z3, crosshair, zigpy; import bellows.zigbee.application'
touch "$STAMP"
