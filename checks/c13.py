"""C13 - incoming NCP callbacks are translated faithfully for every protocol version.

(B) Plumbing, symbolic: the real ControllerApplication.ezsp_callback_handler / _handle_frame / _handle_tc_join_handler are
    called with solver terms for every numeric callback field (message type, endpoints, profile, cluster, APS sequence,
    LQI, RSSI, binding / address index, join status, join decision, node ids); the packet handed to zigpy is compared
    field by field with unsat queries.  Fields that zigpy coerces into int-subclass address types (sender, group id) range
    over boundary sets.
(A) Byte level: per protocol version a callback frame is laid out by hand from the EZSP reference (pre-v14 and v14 field
    orders), optionally with one substituted byte, and sent through EZSP.frame_received -> real decoder -> real handler."""
from __future__ import annotations

import asyncio
import sys
import types

from refs import ezspref as E
from symx import vloop
from symx.core import sand
from symx.run import Check, Harness

from checks.c06 import Gw, make_ezsp

UNICAST, MULTICAST, BROADCAST = 0, 2, 4
NWKS = (0x0000, 0x0001, 0x1234, 0xFFF7, 0xFFFF)
GROUPS = (0x0000, 0x0001, 0x1234, 0xFFFF)
DEVICE_LEFT, DENY_JOIN = 2, 2
IEEES = ("00:0d:6f:00:0a:90:69:e7", "04:cf:8c:00:00:00:00:11")


class Rec:
    def __init__(self):
        self.packets, self.joins, self.leaves, self.tasks = [], [], [], []


def mk_app(ez, own_nwk=0x0000):
    import zigpy.state

    import bellows.zigbee.application as A

    app = object.__new__(A.ControllerApplication)
    app._ezsp = ez
    app.state = zigpy.state.State()
    app.state.node_info.nwk = own_nwk
    app._mfg_id_task = None
    rec = Rec()
    app.packet_received = rec.packets.append
    app.handle_join = lambda nwk, ieee, parent: rec.joins.append((nwk, ieee, parent))
    app.handle_leave = lambda nwk, ieee: rec.leaves.append((nwk, ieee))

    def create_task(coro, name=None):
        rec.tasks.append(name)
        coro.close()

    app.create_task = create_task
    return app, rec


class EzStub:
    def __init__(self, version):
        self.ezsp_version = version

    async def setManufacturerCode(self, code):
        return (0,)


class Plumb(Harness):
    name = "c13_plumbing"
    must_reach = ("unicast", "multicast", "broadcast", "ignored-type", "v14-order", "legacy-order", "empty-payload")
    functions = ("ControllerApplication.ezsp_callback_handler", "ControllerApplication._handle_frame")

    def run(self, ctx):
        import zigpy.types as zt

        version = ctx.int("version", 4, 16)
        mtype = ctx.byte("type")
        prof, clus = ctx.int("profile", 0, 0xFFFF), ctx.int("cluster", 0, 0xFFFF)
        sep, dep, seq = ctx.byte("src_ep"), ctx.byte("dst_ep"), ctx.byte("aps_seq")
        lqi, rssi = ctx.byte("lqi"), ctx.int("rssi", -128, 127)
        bidx, aidx = ctx.byte("binding"), ctx.byte("address")
        sender = NWKS[ctx.choice("sender", len(NWKS))]
        group = GROUPS[ctx.choice("group", len(GROUPS))]
        own = (0x0000, 0x4321)[ctx.choice("own", 2)]
        plen = ctx.choice("plen", 3)
        payload = bytes([0x18, 0x2A, 0x0B][:plen])
        if plen == 0:
            ctx.label("empty-payload")
        aps = types.SimpleNamespace(profileId=prof, clusterId=clus, sourceEndpoint=sep, destinationEndpoint=dep,
                                    options=0x0100, groupId=group, sequence=seq)
        app, rec = mk_app(EzStub(version), own)
        if version >= 14:
            ctx.label("v14-order")
            args = [mtype, aps, sender, None, bidx, aidx, lqi, rssi, 0x11223344, payload]
        else:
            ctx.label("legacy-order")
            args = [mtype, aps, lqi, rssi, sender, bidx, aidx, payload]
        app.ezsp_callback_handler("incomingMessageHandler", args)
        kind = None
        if mtype == UNICAST:
            kind = "unicast"
        elif mtype == MULTICAST:
            kind = "multicast"
        elif mtype == BROADCAST:
            kind = "broadcast"
        if kind is None:
            ctx.label("ignored-type")
            ctx.check(len(rec.packets) == 0, "message type other than unicast/multicast/broadcast produced %d packet(s)" % len(rec.packets), "packet-for-other-type")
            ctx.observe("none")
            return
        ctx.label(kind)
        ctx.check(len(rec.packets) == 1, "%s callback produced %d packets" % (kind, len(rec.packets)), "packet-count:" + kind)
        p = rec.packets[0]
        ctx.check(p.src.addr_mode == zt.AddrMode.NWK and int(p.src.address) == sender, "packet source %r, callback sender 0x%04X" % (p.src, sender), "src")
        for nm, got, want in (("source endpoint", p.src_ep, sep), ("destination endpoint", p.dst_ep, dep), ("profile", p.profile_id, prof),
                              ("cluster", p.cluster_id, clus), ("APS sequence", p.tsn, seq), ("LQI", p.lqi, lqi), ("RSSI", p.rssi, rssi)):
            ctx.check(got == want, "%s of the packet differs from the callback's" % nm, "field:" + nm)
        ctx.check(bytes(p.data.serialize()) == payload, "payload %r became %r" % (payload, bytes(p.data.serialize())), "payload")
        if kind == "unicast":
            ctx.check(p.dst.addr_mode == zt.AddrMode.NWK and int(p.dst.address) == own, "unicast destination %r is not the own address 0x%04X" % (p.dst, own), "dst-unicast")
        elif kind == "multicast":
            ctx.check(p.dst.addr_mode == zt.AddrMode.Group and int(p.dst.address) == group, "multicast destination %r is not group 0x%04X" % (p.dst, group), "dst-multicast")
        else:
            ctx.check(p.dst.addr_mode == zt.AddrMode.Broadcast, "broadcast destination %r" % (p.dst,), "dst-broadcast")
        ctx.observe(kind, p.src_ep, p.dst_ep, p.profile_id, p.cluster_id, p.tsn, p.lqi, p.rssi)


class Join(Harness):
    name = "c13_tc_join"
    must_reach = ("join", "leave", "denied", "leave-and-denied", "mfg-prefix", "join-during-override")
    functions = ("ControllerApplication._handle_tc_join_handler", "ControllerApplication.ezsp_callback_handler")

    def run(self, ctx):
        import bellows.types as t

        status = ctx.byte("status")
        decision = ctx.byte("decision")
        nwk = ctx.int("nwk", 0, 0xFFFF)
        parent = ctx.int("parent", 0, 0xFFFF)
        ieee = t.EUI64.convert(IEEES[ctx.choice("ieee", 2)])
        version = (4, 13, 14)[ctx.choice("version", 3)]

        async def main(loop):
            app, rec = mk_app(EzStub(version))
            app.ezsp_callback_handler("trustCenterJoinHandler", [nwk, ieee, status, decision, parent])
            left = status == DEVICE_LEFT
            denied = decision == DENY_JOIN
            if left:
                ctx.label("leave-and-denied" if denied else "leave")
                ctx.check(len(rec.leaves) == 1 and not rec.joins, "departure (decision %s) produced %d leave(s) and %d join(s)" % ("deny" if denied else "other", len(rec.leaves), len(rec.joins)),
                          "leave-count")
                ctx.check(rec.leaves[0][0] == nwk, "leave reported for a different address", "leave-nwk")
                ctx.check(rec.leaves[0][1] == ieee, "leave reported for a different IEEE", "leave-ieee")
            elif denied:
                ctx.label("denied")
                ctx.check(not rec.joins and not rec.leaves, "denied join produced %d join(s) / %d leave(s)" % (len(rec.joins), len(rec.leaves)), "denied-join")
            else:
                ctx.label("join")
                if str(ieee).startswith("04:cf"):
                    ctx.label("mfg-prefix")
                ctx.check(len(rec.joins) == 1 and not rec.leaves, "allowed join produced %d join(s) / %d leave(s)" % (len(rec.joins), len(rec.leaves)), "join-count")
                ctx.check(sand(rec.joins[0][0] == nwk, rec.joins[0][2] == parent), "join reported with different address / parent", "join-addresses")
                ctx.check(rec.joins[0][1] == ieee, "join reported with a different IEEE", "join-ieee")
            # history: a further allowed join right afterwards (e.g. while the manufacturer-code override of the first is still running)
            n_j = len(rec.joins)
            await asyncio.sleep(0.01)
            ieee2 = t.EUI64.convert(IEEES[ctx.choice("ieee2", 2)])
            nwk2 = ctx.int("nwk2", 0, 0xFFFF)
            parent2 = ctx.int("parent2", 0, 0xFFFF)
            app.ezsp_callback_handler("trustCenterJoinHandler", [nwk2, ieee2, 0x00, 0x00, parent2])
            ctx.check(len(rec.joins) == n_j + 1, "a second allowed join (after a %s) produced %d join(s)" % ("join" if n_j else "non-join", len(rec.joins) - n_j), "second-join-count")
            ctx.check(sand(rec.joins[-1][0] == nwk2, rec.joins[-1][2] == parent2), "second join reported with different address / parent", "second-join-addresses")
            ctx.check(rec.joins[-1][1] == ieee2, "second join reported with a different IEEE", "second-join-ieee")
            if n_j and str(ieee).startswith("04:cf") and str(ieee2).startswith("04:cf"):
                ctx.label("join-during-override")
            if app._mfg_id_task is not None:
                app._mfg_id_task.cancel()
            ctx.observe(len(rec.joins), len(rec.leaves))

        vloop.run(main)


def lay_incoming(version, f):
    """Hand-written wire layout of incomingMessageHandler (EZSP reference), little endian."""
    def u16(x):
        return [x & 0xFF, (x >> 8) & 0xFF]

    aps = u16(f["profile"]) + u16(f["cluster"]) + [f["src_ep"], f["dst_ep"]] + u16(f["options"]) + u16(f["group"]) + [f["aps_seq"]]
    msg = [len(f["payload"])] + list(f["payload"])
    if version >= 14:
        return [f["type"]] + aps + u16(f["sender"]) + list(f["eui64"]) + [f["binding"], f["address"], f["lqi"], f["rssi"] & 0xFF] + \
            [0x44, 0x33, 0x22, 0x11] + msg
    return [f["type"]] + aps + [f["lqi"], f["rssi"] & 0xFF] + u16(f["sender"]) + [f["binding"], f["address"]] + msg


def unlay_incoming(version, d):
    """Inverse of lay_incoming on raw bytes -> field dict, or None when the byte string is not a complete frame payload."""
    def u16(i):
        return d[i] | (d[i + 1] << 8)

    try:
        f = {"type": d[0], "profile": u16(1), "cluster": u16(3), "src_ep": d[5], "dst_ep": d[6], "options": u16(7), "group": u16(9), "aps_seq": d[11]}
        i = 12
        if version >= 14:
            f["sender"] = u16(i)
            f["eui64"] = d[i + 2:i + 10]
            f["binding"], f["address"], f["lqi"], rssi = d[i + 10], d[i + 11], d[i + 12], d[i + 13]
            i += 18
        else:
            f["lqi"], rssi = d[i], d[i + 1]
            f["sender"] = u16(i + 2)
            f["binding"], f["address"] = d[i + 4], d[i + 5]
            i += 6
        f["rssi"] = rssi - 256 if rssi >= 128 else rssi
        n = d[i]
        if len(d) < i + 1 + n:
            return None
        f["payload"] = bytes(d[i + 1:i + 1 + n])
        return f
    except IndexError:
        return None


class Bytes(Harness):
    name = "c13_bytes"
    must_reach = ("unicast", "multicast", "broadcast", "ignored-type", "substituted", "undecodable", "join", "leave", "denied", "repeated-frame")
    functions = ("EZSP.frame_received", "ProtocolHandler.__call__", "ControllerApplication.ezsp_callback_handler", "ControllerApplication._handle_frame",
                 "ControllerApplication._handle_tc_join_handler")

    def run(self, ctx, versions=tuple(range(4, 15)), subst=(0x00, 0x01, 0x02, 0x04, 0x7F, 0x80, 0xFF)):
        import zigpy.types as zt

        import bellows.types as t

        version = versions[ctx.choice("version", len(versions))]
        which = ("incoming", "tcjoin")[ctx.choice("frame", 2)]

        async def main(loop):
            gw = Gw(loop)
            ez = make_ezsp(version, gw)
            app, rec = mk_app(ez, 0x0000)
            ez.add_callback(app.ezsp_callback_handler)
            ph = ez._protocol
            if which == "incoming":
                plen = ctx.choice("plen", 3)
                base = {"type": (UNICAST, MULTICAST, BROADCAST, 1, 6)[ctx.choice("type", 5)], "profile": 0x0104, "cluster": 0x0B04, "src_ep": 3, "dst_ep": 1, "options": 0x0140,
                        "group": 0x2211, "aps_seq": 0x5A, "lqi": 0xC8, "rssi": -45, "sender": 0x9ABC, "binding": 0xFF, "address": 0xFE,
                        "eui64": [1, 2, 3, 4, 5, 6, 7, 8], "payload": bytes([0x18, 0x2A, 0x0B][:plen])}
                payload = lay_incoming(version, base)
                if ctx.flag("substitute"):
                    pos = ctx.choice("pos", len(payload))
                    cands = sorted(set(subst) | {payload[pos] ^ 0x20})
                    payload = payload[:pos] + [cands[ctx.choice("val", len(cands))]] + payload[pos + 1:]
                    ctx.label("substituted")
                fid = ph.COMMANDS["incomingMessageHandler"][0]
                repeat = ctx.flag("same_frame_twice")  # e.g. a device re-sending the identical report
                for _ in range(2 if repeat else 1):
                    ez.frame_received(bytes(E.header(version, 0x33, fid, callback=True) + payload))
                f = unlay_incoming(version, payload)
                if repeat:
                    ctx.label("repeated-frame")
                    if f is not None and f["type"] in (UNICAST, MULTICAST, BROADCAST):
                        ctx.check(len(rec.packets) == 2, "two identical %s callback frames (v%d) produced %d packets" % (f["type"], version, len(rec.packets)), "repeated-callback-dropped")
                        rec.packets.pop()
                if f is None:
                    ctx.label("undecodable")
                    ctx.check(not rec.packets, "frame with an incomplete payload produced a packet", "packet-from-truncated")
                    ctx.observe("undecodable")
                    return
                if f["type"] not in (UNICAST, MULTICAST, BROADCAST):
                    ctx.label("ignored-type")
                    ctx.check(not rec.packets, "message type %d produced a packet" % f["type"], "packet-for-other-type")
                    ctx.observe("ignored")
                    return
                kind = {UNICAST: "unicast", MULTICAST: "multicast", BROADCAST: "broadcast"}[f["type"]]
                ctx.label(kind)
                ctx.check(len(rec.packets) == 1, "%s frame (v%d) produced %d packets" % (kind, version, len(rec.packets)), "packet-count:" + kind)
                p = rec.packets[0]
                got = {"sender": int(p.src.address), "src_ep": int(p.src_ep), "dst_ep": int(p.dst_ep), "profile": int(p.profile_id), "cluster": int(p.cluster_id),
                       "aps_seq": int(p.tsn), "lqi": int(p.lqi), "rssi": int(p.rssi), "payload": bytes(p.data.serialize())}
                want = {k: f[k] for k in got}
                ctx.check(got == want, "v%d %s packet %r differs from the frame's fields %r" % (version, kind, got, want), "bytes-fields")
                ctx.check(p.src.addr_mode == zt.AddrMode.NWK, "source address mode %r" % p.src.addr_mode, "src")
                if kind == "unicast":
                    ctx.check(p.dst.addr_mode == zt.AddrMode.NWK and int(p.dst.address) == 0x0000, "unicast destination %r" % (p.dst,), "dst-unicast")
                elif kind == "multicast":
                    ctx.check(p.dst.addr_mode == zt.AddrMode.Group and int(p.dst.address) == f["group"], "multicast destination %r, group 0x%04X" % (p.dst, f["group"]), "dst-multicast")
                else:
                    ctx.check(p.dst.addr_mode == zt.AddrMode.Broadcast, "broadcast destination %r" % (p.dst,), "dst-broadcast")
                ctx.observe(kind, got)
            else:
                status = ctx.choice("status", 8)
                decision = ctx.choice("decision", 4)
                nwk, parent = 0x7788, 0x99AA
                ieee = [0xE7, 0x69, 0x90, 0x0A, 0x00, 0x6F, 0x0D, 0x00]
                payload = [nwk & 0xFF, nwk >> 8] + ieee + [status, decision, parent & 0xFF, parent >> 8]
                fid = ph.COMMANDS["trustCenterJoinHandler"][0]
                repeat = ctx.flag("same_frame_twice")
                for _ in range(2 if repeat else 1):
                    ez.frame_received(bytes(E.header(version, 0x33, fid, callback=True) + payload))
                if repeat:
                    ctx.label("repeated-frame")
                    n_ev = len(rec.joins) + len(rec.leaves)
                    expect_ev = 0 if (status != DEVICE_LEFT and decision == DENY_JOIN) else 2
                    ctx.check(n_ev == expect_ev, "two identical trust-centre callbacks (v%d, status %d, decision %d) produced %d join/leave events" % (version, status, decision, n_ev), "repeated-callback-dropped")
                    if rec.joins:
                        rec.joins.pop()
                    if rec.leaves and status == DEVICE_LEFT:
                        rec.leaves.pop()
                if status == DEVICE_LEFT:
                    ctx.label("leave")
                    ctx.check(len(rec.leaves) == 1 and not rec.joins, "departure (v%d, decision %d): %d leave(s), %d join(s)" % (version, decision, len(rec.leaves), len(rec.joins)), "leave-count")
                    ctx.check(int(rec.leaves[0][0]) == nwk and list(rec.leaves[0][1]) == ieee, "leave for %r" % (rec.leaves[0],), "leave-args")
                elif decision == DENY_JOIN:
                    ctx.label("denied")
                    ctx.check(not rec.joins and not rec.leaves, "denied join (v%d): %d join(s)" % (version, len(rec.joins)), "denied-join")
                else:
                    ctx.label("join")
                    ctx.check(len(rec.joins) == 1 and not rec.leaves, "allowed join (v%d, status %d): %d join(s), %d leave(s)" % (version, status, len(rec.joins), len(rec.leaves)), "join-count")
                    j = rec.joins[0]
                    ctx.check(int(j[0]) == nwk and list(j[1]) == ieee and int(j[2]) == parent, "join reported as %r" % (j,), "join-args")
                ctx.observe("tc", status, decision, len(rec.joins), len(rec.leaves))

        vloop.run(main)


PLUMB = Plumb()
JOIN = Join()
BYTES = Bytes()


def main(tier):
    c = Check("C13", tier)
    c.assumptions += [
        "packet_received / handle_join / handle_leave / create_task of the application object are recorders; application allocated without zigpy's constructor",
        "symbolic plumbing passes a plain attribute holder for the APS frame (the real struct type would coerce, i.e. realise, every field); sender and group id range over boundary sets because zigpy's address types coerce them",
        "byte-level frames are laid out by hand from the EZSP reference (pre-v14 and v14 field orders), not from bellows' schema tables",
        "a frame whose one substituted byte makes the payload incomplete must produce no packet; otherwise the packet must reflect the substituted value",
    ]
    c.run("checks.c13:PLUMB", {})
    c.run("checks.c13:JOIN", {})
    if tier == "quick":
        c.run("checks.c13:BYTES", {"versions": list(range(4, 15))})
        c.out_of_bounds += ["byte level: one substituted byte with 8 candidate values per position", "joint variation of several bytes at byte level"]
    else:
        c.run("checks.c13:BYTES", {"versions": list(range(4, 15)), "subst": [0x00, 0x01, 0x02, 0x03, 0x04, 0x05, 0x06, 0x10, 0x7F, 0x80, 0xFE, 0xFF]})
        c.out_of_bounds += ["joint variation of several bytes at byte level", "substituted values outside the 13-value candidate set"]
    return c.finish()


if __name__ == "__main__":
    sys.exit(main(sys.argv[1] if len(sys.argv) > 1 else "quick"))
