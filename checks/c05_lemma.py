"""CrossHair target for the C05 float lemma (run by checks/c05.py, never imported by symx).

`crosshair check` searches, over all IEEE doubles including NaN and the infinities, for a counterexample to the
postcondition; "Confirmed over all paths" is the only accepted verdict."""
import logging

import bellows.ash as ash

logging.disable(logging.CRITICAL)


def clamp(cur: float, new: float) -> float:
    """
    pre: 0.4 <= cur <= 3.2
    post: 0.4 <= __return__ <= 3.2
    """
    p = object.__new__(ash.AshProtocol)
    p._t_rx_ack = cur
    p._change_ack_timeout(new)
    return p._t_rx_ack
