"""C09 - bring-up negotiates the NCP's protocol version and frames everything accordingly.

Full host stack (real EZSP.startup_reset / version / reset / write_config, real Gateway, real AshProtocol) against a
simulated NCP of protocol version V (reference ASH endpoint + EZSP responder that answers `version` in the framing it was
asked in, latches its version only on a query in its own framing for its own version, ignores wrongly framed requests).
Solver-decided: V in 4..16, serial or socket device path, a spontaneous start-up RSTACK (absent / before the wait /
inside the wait / crossing the host's RST) and its code, line faults on the first data frames."""
from __future__ import annotations

import asyncio
import sys

from refs import ashref as R
from refs.fullstack import ID_GETCFG, ID_SETCFG, ID_VERSION, Stack, outcome
from refs import ezspref as E
from symx import vloop
from symx.run import Check, Harness

PATHS = {"serial": "/dev/ttyUSB0", "socket": "socket://127.0.0.1:9999"}
SPONT = ("absent", "before", "inside", "crossing")
KNOWN_CROSS = "bringup-fails:spontaneous-software-rstack-crossing-host-rst"


class Bringup(Harness):
    name = "c09_bringup"
    must_reach = ("v4", "legacy5", "v8-family", "newer-than-known", "socket-no-reset-needed", "second-reset")
    functions = ("EZSP.startup_reset", "EZSP.reset", "EZSP.version", "EZSP._switch_protocol_version", "EZSP.write_config", "EZSP._command",
                 "Gateway.reset", "Gateway.wait_for_startup_reset", "Gateway.reset_received", "AshProtocol.send_reset", "AshProtocol.send_data",
                 "ProtocolHandler.command", "EZSPv4._ezsp_frame_tx", "EZSPv5._ezsp_frame_tx", "EZSPv8._ezsp_frame_tx")

    def must_reach_for(self, params):
        vs = params.get("versions", list(range(4, 17)))
        mr = ["second-reset", "later-reset-unanswered-once"]
        if 4 in vs:
            mr.append("v4")
        if any(5 <= v <= 7 for v in vs):
            mr.append("legacy5")
        if any(8 <= v <= 14 for v in vs):
            mr.append("v8-family")
        if any(v > 14 for v in vs):
            mr.append("newer-than-known")
        if "socket" in params.get("paths", ("serial", "socket")) and any(s in params.get("spont", SPONT) for s in ("before", "inside")):
            mr.append("socket-no-reset-needed")
        return mr

    def run(self, ctx, versions=tuple(range(4, 17)), paths=("serial", "socket"), spont=SPONT, F=0, codes=(0x0B, 0x02)):
        V = versions[ctx.choice("version", len(versions))]
        path = paths[ctx.choice("path", len(paths))]
        sps = [x for x in spont if not (x == "inside" and path == "serial")]  # a serial host does not wait: nothing to be "inside" of
        sp = sps[ctx.choice("spont", len(sps))]
        code = codes[ctx.choice("code", len(codes))] if sp != "absent" else None
        lost_rstack = sp == "absent" and ctx.flag("later_rstack_lost")
        faults = ("deliver", "drop", "duplicate", "corrupt")

        async def main(loop):
            st = Stack(loop, V, PATHS[path])
            ez, ncp = st.ez, st.ncp
            if F:
                def fault(d, i, data):
                    # the reset handshake frames themselves are left alone: a lost RST is a (correctly reported) failed bring-up
                    if 1 <= i <= F and not bytes(data).startswith(bytes([R.CAN])) and bytes(data)[0] not in (0xC1,):
                        return faults[ctx.choice("%s%d" % (d, i), len(faults))]
                    return "deliver"

                st.wire.fault = fault
            t_start = 0.05
            rst_at = t_start + (1.0 if path == "socket" else 0.0)  # when the host writes its RST if nothing arrived before
            if sp == "before":
                loop.call_at(0.0, ncp.spontaneous_reset, code)
            elif sp == "inside":
                loop.call_at(t_start + 0.5 - 0.01, ncp.spontaneous_reset, code)
            elif sp == "crossing":
                # written by the NCP just before the host's RST reaches it: the two frames cross on the line
                loop.call_at(rst_at - 0.005, ncp.spontaneous_reset, code)
            await asyncio.sleep(t_start)
            what = "NCP v%d, %s path, spontaneous RSTACK %s%s" % (V, path, sp, "" if code is None else " (code 0x%02X)" % code)
            try:
                r = await outcome(ez.startup_reset())
            except vloop.Deadlock:
                ctx.fail("start-up never finished (%s)" % what, "bringup-hangs")
            known = sp == "crossing" and code == R.SOFTWARE_RESET
            ctx.check(r[0] == "ok", "start-up failed with %s at %.3f s (%s)" % (r[0], r[1], what), KNOWN_CROSS if (known and r[0] == "TimeoutError") else "bringup-fails:" + r[0])
            reqs = list(ncp.requests)
            wire = st.host_requests()
            # --- handshake and first query
            kinds = [w[1] for w in wire]
            if path == "socket" and sp in ("before", "inside") and code == R.SOFTWARE_RESET:
                ctx.label("socket-no-reset-needed")
            else:
                ctx.check("RST" in kinds and kinds.index("RST") == 0, "no RST frame before the first request (%s)" % what, "no-handshake")
            data_reqs = [w for w in wire if w[1] != "RST"]
            ctx.check(len(data_reqs) >= 1 and data_reqs[0][1] == "legacy3" and data_reqs[0][3] == ID_VERSION and data_reqs[0][4][:1] == bytes([4]),
                      "first request after the reset is %r, expected a legacy-format version query" % (data_reqs[:1],), "first-query-not-legacy")
            # --- adoption
            ctx.check(ez.ezsp_version == V, "NCP reports version %d, host adopted %d" % (V, ez.ezsp_version), "version-not-adopted")
            want_tables = V if V <= 14 else 14
            ctx.check(type(ez._protocol).VERSION == want_tables, "NCP version %d: command tables of version %s in use, expected %d" % (V, type(ez._protocol).VERSION, want_tables),
                      "wrong-tables")
            if V != 4:
                ctx.check(len(data_reqs) >= 2 and data_reqs[1][1] == E.family(V) and data_reqs[1][3] == ID_VERSION and data_reqs[1][4][:1] == bytes([V]),
                          "second version query %r is not a %s-format query for version %d" % (data_reqs[1:2], E.family(V), V), "confirm-query")
                ctx.check(len([w for w in data_reqs if w[3] == ID_VERSION]) == 2, "%d version queries during bring-up" % len([w for w in data_reqs if w[3] == ID_VERSION]), "version-query-count")
            else:
                ctx.check(len([w for w in data_reqs if w[3] == ID_VERSION]) == 1, "NCP v4: %d version queries" % len([w for w in data_reqs if w[3] == ID_VERSION]), "version-query-count")
            ctx.label("v4" if V == 4 else ("legacy5" if V <= 7 else ("v8-family" if V <= 14 else "newer-than-known")))
            # --- configuration write in the adopted framing
            n0 = len(ncp.requests)
            try:
                r2 = await outcome(ez.write_config({}))
            except vloop.Deadlock:
                ctx.fail("write_config never finished (%s)" % what, "config-hangs")
            ctx.check(r2[0] == "ok", "default configuration could not be written for NCP version %d: %s %r (%s)" % (V, r2[0], r2[2], what),
                      KNOWN_CROSS if (known and r2[0] == "TimeoutError") else "write-config-fails:" + r2[0])
            cfg = ncp.requests[n0:]
            ctx.check(any(q[3] == ID_SETCFG for q in cfg), "configuration write set nothing", "config-empty")
            bad = [q for q in ncp.requests if q[5] in ("ignored-wrong-framing", "version-not-set", "garbage")]
            ctx.check(not bad, "NCP v%d received %d request(s) it cannot accept, first: framing %s id 0x%X (%s)" % (V, len(bad), bad[0][1] if bad else "", bad[0][3] if bad else 0, bad[0][5] if bad else ""),
                      "wrongly-framed-request")
            # --- a later reset falls back to legacy framing until negotiation is repeated
            ctx.label("second-reset")
            if lost_rstack:
                # the answer to a later reset request is lost once: that request times out, the next one is a full request again
                ctx.label("later-reset-unanswered-once")
                prev_fault = st.wire.fault
                armed = [True]

                def drop_one(d, i, data):
                    if armed[0] and d == "n" and bytes(data)[:1] == b"\xc1":
                        armed[0] = False
                        return "drop"
                    return prev_fault(d, i, data) if prev_fault is not None else "deliver"

                st.wire.fault = drop_one
                n_rst0 = len([w for w in st.host_requests() if w[1] == "RST"])
                rl = await outcome(ez.reset())
                ctx.check(rl[0] == "TimeoutError", "a reset whose RSTACK was lost ended with %s" % rl[0], "lost-rstack-outcome")
                rl2 = await outcome(ez.reset())
                n_rst1 = len([w for w in st.host_requests() if w[1] == "RST"])
                ctx.check(rl2[0] == "ok" and n_rst1 == n_rst0 + 2, "the reset request after a timed-out one ended with %s, %d RST frame(s) written for two requests (NCP v%d)"
                          % (rl2[0], n_rst1 - n_rst0, V), "reset-after-timeout")
                st.wire.fault = prev_fault
            n1 = len(st.host_requests())
            seen_cb = []
            ez.add_callback(lambda name, args: seen_cb.append(name))
            if V != 4 and not lost_rstack:  # (in the lost-RSTACK variant both ends are already back to the un-negotiated state)
                # a callback frame the NCP queued (in the negotiated framing) just before it sees the RST: the host receives
                # it between its RST and the RSTACK; it may be delivered as what it is or dropped, never as another frame
                ctx.label("frame-in-flight-at-reset")
                cb = bytes(E.header(V, 0x5A, 0x19, callback=True) + ([0x90] if V < 14 else [0x90, 0, 0, 0]))  # stackStatusHandler
                loop.call_soon(ncp.ash.submit, cb)
            r3 = await outcome(ez.reset())
            wrong = [n for n in seen_cb if n not in ("stackStatusHandler", "_reset_controller_application")]
            ctx.check(not wrong, "a stackStatusHandler frame sent by the v%d NCP just before the reset was handed to the application as %r" % (V, wrong), "frame-misdecoded-during-reset")
            ctx.check(r3[0] == "ok", "second reset failed with %s" % r3[0], "second-reset-fails")
            r4 = await outcome(ez.version())
            ctx.check(r4[0] == "ok", "version negotiation after the second reset failed with %s (NCP v%d)" % (r4[0], V), "renegotiation-fails")
            later = [w for w in st.host_requests()[n1:] if w[1] != "RST"]
            ctx.check(len(later) >= 1 and later[0][1] == "legacy3" and later[0][3] == ID_VERSION and later[0][4][:1] == bytes([4]),
                      "first request after the second reset: %r, expected a legacy-format version query" % (later[:1],), "no-fallback-after-reset")
            ctx.check(ez.ezsp_version == V, "after renegotiation the host runs version %d" % ez.ezsp_version, "renegotiated-version")
            r5 = await outcome(ez.getConfigurationValue(ez.types.EzspConfigId.CONFIG_STACK_PROFILE) if False else ez.nop())
            ctx.check(r5[0] == "ok", "command after renegotiation failed with %s" % r5[0], "command-after-renegotiation")
            bad = [q for q in ncp.requests if q[5] in ("ignored-wrong-framing", "version-not-set", "garbage")]
            ctx.check(not bad, "NCP v%d received a request it cannot accept after the second reset (%s)" % (V, bad[0][5] if bad else ""), "wrongly-framed-request")
            ctx.observe(V, path, sp, code, r[0], round(r[1], 1), [(w[1], w[3]) for w in data_reqs[:3]], type(ez._protocol).VERSION)

        vloop.run(main)


BRINGUP = Bringup()


def main(tier):
    c = Check("C09", tier)
    c.assumptions += [
        "NCP model (refs/fullstack.py): `version` answered in the framing it was asked in; the version is latched by a query in the NCP's own framing for the NCP's own version; before that every other command is answered invalidCommand(version not set); requests in another framing are ignored; responses to getConfigurationValue/setConfigurationValue/getValue/setValue/nop use the fixed layouts of the EZSP reference",
        "link: reference NCP ASH endpoint, FIFO line with 10 ms latency per direction, directions independent",
        "host wired like bellows.uart._connect + EZSP.connect(use_thread=False); only zigpy.serial.create_serial_connection is bypassed",
        "the spontaneous start-up RSTACK carries the software-reset code unless stated; 'crossing' = written by the NCP 5 ms before the host's RST is written",
    ]
    if tier == "quick":
        c.run("checks.c09:BRINGUP", {})
        c.out_of_bounds += ["line faults during bring-up (thorough: one fault on each of the first two data frames per direction)", "NCP versions above 16",
                            "spontaneous RSTACK codes other than software reset and power-on (thorough adds watchdog)"]
    else:
        c.run("checks.c09:BRINGUP", {"codes": [0x0B, 0x02, 0x03]})
        c.run("checks.c09:BRINGUP", {"versions": [4, 7, 8, 13, 14, 15, 200], "spont": ["absent"], "F": 2})
        c.out_of_bounds += ["more than two faulted data frames per direction", "NCP versions other than 4..16 and 200"]
    return c.finish()


if __name__ == "__main__":
    sys.exit(main(sys.argv[1] if len(sys.argv) > 1 else "quick"))
