"""C16 - config write never shrinks a table, honours overrides, sets the buffer count last.

Real EZSP.write_config (real per-version schema objects and DEFAULT_CONFIG) against a command-level NCP.
The value the NCP currently reports for every setting is a fully symbolic 16-bit solver term - the
grow-only comparison in write_config forks on it - plus a symbolic 'unreadable' flag; protocol version,
override set and the accept/reject answers are solver-decided choices."""
from __future__ import annotations

import sys

from symx import vloop
from symx.core import SymInt
from symx.run import Check, Harness

# capacity settings named by the property: table sizes, child and network counts (literal list, not
# derived from the grow-only markers of the code under test)
CAPACITY = (
    "CONFIG_SOURCE_ROUTE_TABLE_SIZE", "CONFIG_SUPPORTED_NETWORKS", "CONFIG_MULTICAST_TABLE_SIZE",
    "CONFIG_TRUST_CENTER_ADDRESS_CACHE_SIZE", "CONFIG_ADDRESS_TABLE_SIZE", "CONFIG_KEY_TABLE_SIZE",
    "CONFIG_MAX_END_DEVICE_CHILDREN",
)
PBC = "CONFIG_PACKET_BUFFER_COUNT"
VERSIONS = tuple(range(4, 15))
CANDIDATES = (1, 2, 3, 8, 12, 16, 30, 255, 0)


class Ncp:
    def __init__(self, ctx, t, sym_names, unreadable=(), fixed_current=None):
        self.ctx, self.t = ctx, t
        self.sym_names = sym_names  # None = every setting symbolic
        self.unreadable = set(unreadable)
        self.fixed = fixed_current
        self.cur = {}
        self.log = []  # ("cfg"|"val", name, value)
        self.mode = "accept"
        self.nwrites = 0

    def current(self, name):
        if name not in self.cur:
            if self.sym_names is None or name in self.sym_names:
                self.cur[name] = self.ctx.int("cur_" + name, 0, 0xFFFF)
            else:
                self.cur[name] = self.fixed
        return self.cur[name]

    def _answer(self):
        t = self.t
        self.nwrites += 1
        if self.mode == "reject" or (self.mode == "alternate" and self.nwrites % 2 == 1):
            return (t.EzspStatus.ERROR_OUT_OF_MEMORY,)
        return (t.EzspStatus.SUCCESS,)

    async def command(self, name, *args, **kwargs):
        t = self.t
        if name == "getConfigurationValue":
            cid = kwargs.get("configId", args[0] if args else None)
            if cid.name in self.unreadable:
                return (t.EzspStatus.ERROR_INVALID_ID, 0)
            return (t.EzspStatus.SUCCESS, self.current(cid.name))
        if name == "setConfigurationValue":
            cid = kwargs.get("configId", args[0] if args else None)
            self.log.append(("cfg", cid.name, kwargs.get("value", args[1] if len(args) > 1 else None)))
            return self._answer()
        if name == "getValue":
            return (t.EzspStatus.SUCCESS, b"\x00")
        if name == "setValue":
            vid = kwargs.get("valueId", args[0] if args else None)
            self.log.append(("val", vid.name, bytes(kwargs.get("value", args[1] if len(args) > 1 else b""))))
            return self._answer()
        raise AssertionError("unexpected command %s" % name)


def make_ezsp(version, ncp):
    import bellows.ezsp as E

    ez = E.EZSP({"path": "/dev/null"})
    ez._ezsp_version = version
    ez._protocol = E.EZSP._BY_VERSION[version](ez.handle_callback, None)
    ez._command = ncp.command
    ez.start_ezsp()
    return ez


def schema_keys(version):
    import bellows.ezsp as E

    return sorted(str(k) for k in E.EZSP._BY_VERSION[version].SCHEMAS["ezsp_config"].schema)


def acceptable(version, key):
    """Two concrete values the version's own schema accepts for this key."""
    import bellows.ezsp as E

    sch = E.EZSP._BY_VERSION[version].SCHEMAS["ezsp_config"]
    out = []
    for v in CANDIDATES:
        try:
            sch({key: v})
        except Exception:
            continue
        out.append(v)
        if len(out) == 2:
            break
    return out


def defaults_of(version):
    from bellows.ezsp.config import DEFAULT_CONFIG, RuntimeConfig

    return [c.config_id.name for c in DEFAULT_CONFIG[version] if isinstance(c, RuntimeConfig)]


def check_log(ctx, version, log, overrides, ncp, tag):
    """Oracle clauses that refer to one write sequence."""
    names = [(k, n) for (k, n, _v) in log]
    for kn in set(names):
        ctx.check(names.count(kn) == 1, "%sv%d: %s written %d times" % (tag, version, kn[1], names.count(kn)), "written-twice")
    cfg_writes = [(n, v) for (k, n, v) in log if k == "cfg"]
    written = dict(cfg_writes)
    # overrides
    for name, val in overrides.items():
        if val is None:
            ctx.label("disabled")
            ctx.check(name not in written, "%sv%d: disabled setting %s was written (value %r)" % (tag, version, name, written.get(name)), "disabled-written")
        else:
            ctx.label("user-value")
            ctx.check(name in written, "%sv%d: user-supplied %s=%d was not written" % (tag, version, name, val), "user-not-written")
            if name in written:
                ctx.check(written[name] == val, "%sv%d: user-supplied %s=%d written as %r" % (tag, version, name, val, written[name]), "user-value-changed")
    # never shrink (defaults only)
    for name, val in cfg_writes:
        if name in CAPACITY and name not in overrides and name not in ncp.unreadable:
            cur = ncp.current(name)
            ctx.check(val > cur, "%sv%d: own default %s=%r written although the NCP reports a value that is not smaller" % (tag, version, name, val),
                      "shrink:v%d:%s" % (version, name))
            ctx.label("grown")
    # buffer count last
    if any(n == PBC for (k, n, _v) in log):
        i = [j for j, (k, n, _v) in enumerate(log) if n == PBC][0]
        ctx.label("pbc-written")
        ctx.check(i == len(log) - 1, "%sv%d: %s written after %s" % (tag, version, [n for (_k, n, _v) in log[i + 1:]], PBC), "pbc-not-last")


def run_modes(ctx, ez, ncp, overrides, version, tag=""):
    """write_config under three answer scripts; the write sequence must not depend on the answers."""
    logs = {}

    async def main(loop):
        for mode in ("accept", "reject", "alternate"):
            ncp.mode, ncp.nwrites, ncp.log = mode, 0, []
            try:
                await ez.write_config(dict(overrides))
            except Exception as e:
                ctx.fail("%sv%d: write_config raised %s: %s (overrides %r)" % (tag, version, type(e).__name__, e, overrides),
                         "raises:%s" % type(e).__name__)
            logs[mode] = list(ncp.log)

    vloop.run(main)
    check_log(ctx, version, logs["accept"], overrides, ncp, tag)
    for mode in ("reject", "alternate"):
        a = [(k, n) for (k, n, _v) in logs["accept"]]
        b = [(k, n) for (k, n, _v) in logs[mode]]
        ctx.check(a == b, "%sv%d: with rejected settings (%s) the writes were %r instead of %r" % (tag, version, mode, b, a), "reject-stops")
        check_log(ctx, version, logs[mode], overrides, ncp, tag + mode + ": ")
    return logs


class Defaults(Harness):
    """No overrides; every current value symbolic; one symbolically chosen setting may be unreadable."""

    name = "c16_defaults"
    must_reach = ("grown", "skipped", "unreadable", "pbc-written")
    functions = ("EZSP.write_config",)

    def run(self, ctx):
        import bellows.types as t

        version = VERSIONS[ctx.choice("version", len(VERSIONS))]
        u = ctx.choice("unreadable", len(CAPACITY) + 1)
        unread = (CAPACITY[u - 1],) if u else ()
        ncp = Ncp(ctx, t, None, unreadable=unread)
        ez = make_ezsp(version, ncp)
        logs = run_modes(ctx, ez, ncp, {}, version)
        written = {n for (k, n, _v) in logs["accept"]}
        if unread:
            ctx.label("unreadable")
        if any(n in CAPACITY and n not in written for n in defaults_of(version)):
            ctx.label("skipped")
        ctx.observe(version, unread, [(k, n, v) for (k, n, v) in logs["accept"]])


class Overrides(Harness):
    """One override chosen from the version's whole schema (value or disabled) plus a second from a short list;
    current values of the overridden settings symbolic, all others 0."""

    name = "c16_overrides"
    must_reach = ("user-value", "disabled", "no-default", "has-default", "pbc-written")
    functions = ("EZSP.write_config",)

    def run(self, ctx, versions=VERSIONS):
        import bellows.types as t

        version = versions[ctx.choice("version", len(versions))]
        keys = schema_keys(version)
        k1 = keys[ctx.choice("key1", len(keys))]
        vals = acceptable(version, k1)
        kind = ctx.choice("kind1", 1 + len(vals))
        overrides = {k1: (None if kind == 0 else vals[kind - 1])}
        second = ctx.choice("second", 4)
        if second == 1 and k1 != PBC:
            overrides[PBC] = 64
        elif second == 2 and k1 != PBC:
            overrides[PBC] = None
        elif second == 3 and k1 != "CONFIG_ADDRESS_TABLE_SIZE":
            overrides["CONFIG_ADDRESS_TABLE_SIZE"] = 8
        ctx.label("has-default" if k1 in defaults_of(version) else "no-default")
        ncp = Ncp(ctx, t, set(overrides), fixed_current=0)
        ez = make_ezsp(version, ncp)
        logs = run_modes(ctx, ez, ncp, overrides, version)
        ctx.observe(version, sorted((k, v) for k, v in overrides.items()), [(k, n, v) for (k, n, v) in logs["accept"]])


DEFAULTS = Defaults()
OVERRIDES = Overrides()


def main(tier):
    c = Check("C16", tier)
    c.assumptions += [
        "NCP modelled at command level (getConfigurationValue / setConfigurationValue / getValue / setValue) below EZSP._command",
        "capacity settings = the literal list in checks/c16.py (table sizes, child and network counts); the packet-buffer count is not one of them",
        "user override values are concrete values accepted by the version's own voluptuous schema (symbolic ints do not pass voluptuous' type check)",
        "the write sequence under all-accept, all-reject and alternating-reject answers is compared (rejection must not change which settings are written)",
    ]
    c.run("checks.c16:DEFAULTS", {})
    if tier == "quick":
        c.run("checks.c16:OVERRIDES", {"versions": (4, 7, 8, 14)})
        c.out_of_bounds += ["override harness: versions 4, 7, 8, 14 only (thorough: 4..14)", "more than two simultaneous overrides",
                            "in the override harness the non-overridden settings report 0"]
    else:
        c.run("checks.c16:OVERRIDES", {"versions": VERSIONS})
        c.out_of_bounds += ["more than two simultaneous overrides", "in the override harness the non-overridden settings report 0"]
    return c.finish()


if __name__ == "__main__":
    sys.exit(main(sys.argv[1] if len(sys.argv) > 1 else "quick"))
