"""C19 - watchdog requests a restart only after the tolerated run of consecutive failures.

Real ControllerApplication._watchdog_feed (application object built through the zigpy shim) with a
command-level stub for the EZSP object.  Symbolic: the feed counter (so the modulo-period test forks on a
solver term), the start value of the consecutive-failure count, the protocol version class, and for every
feed the outcome {success, TimeoutError, EzspError} and the command at which it strikes."""
from __future__ import annotations

import asyncio
import sys

from refs import appshim
from symx import vloop
from symx.core import site
from symx.run import Check, Harness


class StubEzsp:
    def __init__(self, version):
        self.ezsp_version = version
        self.calls = []
        self.fail_at = None  # (command name, exception)
        self.is_ezsp_running = True
        self.value_unreadable = False

    def _maybe(self, name):
        self.calls.append(name)
        if self.fail_at is not None and self.fail_at[0] == name:
            raise self.fail_at[1]

    async def nop(self):
        self._maybe("nop")
        return ()

    async def read_counters(self):
        import bellows.types as t

        self._maybe("read_counters")
        return dict(zip(t.EmberCounterType, [1] * len(t.EmberCounterType)))

    async def read_and_clear_counters(self):
        import bellows.types as t

        self._maybe("read_and_clear_counters")
        return dict(zip(t.EmberCounterType, [2] * len(t.EmberCounterType)))

    async def getValue(self, valueId):
        import bellows.types as t

        self._maybe("getValue")
        if self.value_unreadable:
            return t.EzspStatus.ERROR_INVALID_ID, b""  # the keep-alive itself succeeded; this NCP just cannot report the value
        return t.EzspStatus.SUCCESS, b"\x10"


class Feed(Harness):
    name = "c19_feed"
    must_reach = ("raised", "tolerated", "cleared", "clear-period", "v4", "value-unreadable")
    functions = ("ControllerApplication._watchdog_feed", "ControllerApplication._get_free_buffers")

    def run(self, ctx, L=6):
        import bellows.zigbee.application as A
        from bellows.exception import EzspError

        version = ctx.int("version", 4, 16)
        v4 = bool(version == 4)
        c0 = ctx.int("feed_counter", 0, 1_000_000)
        f0 = ctx.int("failures", 0, A.MAX_WATCHDOG_FAILURES)
        outcomes = []
        for i in range(L):
            o = ctx.choice("outcome%d" % i, 3)
            at = 0
            if o and not v4:
                at = ctx.choice("at%d" % i, 2)  # keep-alive command itself / the free-buffer read
            unread = (not v4) and o == 0 and ctx.flag("unreadable%d" % i)  # free-buffer value not readable on a successful feed
            outcomes.append((o, at, unread))

        async def main(loop):
            # state constructed directly: only what _watchdog_feed touches
            import zigpy.state

            app = object.__new__(A.ControllerApplication)
            app.state = zigpy.state.State()
            ez = StubEzsp(version)
            app._ezsp = ez
            app._watchdog_feed_counter = c0
            app._watchdog_failures = f0
            ref_fail = f0
            ref_cnt = c0
            for i, (o, at, unread) in enumerate(outcomes):
                ez.calls.clear()
                ez.value_unreadable = unread
                if unread:
                    ctx.label("value-unreadable")
                exc = None
                if o == 1:
                    exc = asyncio.TimeoutError()
                elif o == 2:
                    exc = EzspError("simulated")
                if not v4:
                    ref_cnt = ref_cnt + 1
                    clear = (ref_cnt % A.EZSP_COUNTERS_CLEAR_IN_WATCHDOG_PERIODS) == 0
                ez.fail_at = None
                raised = None
                # the keep-alive command the specification asks for
                try:
                    if exc is not None:
                        # the failing command is decided after we know which keep-alive is used:
                        # strike at the keep-alive itself (at == 0) or at the free-buffer read (at == 1)
                        ez.fail_at = ("*", exc)
                        ez._maybe = _striker(ez, at, exc)
                    else:
                        ez._maybe = _striker(ez, None, None)
                    await app._watchdog_feed()
                except Exception as e:
                    raised = e
                first = ez.calls[0] if ez.calls else None
                if v4:
                    ctx.label("v4")
                    ctx.check(ez.calls[:1] == ["nop"] and len(ez.calls) == 1,
                              "feed %d on protocol version 4 issued %r instead of one nop" % (i, ez.calls), "v4-keepalive")
                else:
                    ctx.check(first in ("read_counters", "read_and_clear_counters"),
                              "feed %d on a later protocol version started with %r instead of a counter read" % (i, first), "keepalive-kind")
                    got_clear = first == "read_and_clear_counters"
                    ctx.check(clear == got_clear,
                              "feed %d: read-and-clear used=%s but the period rule says otherwise" % (i, got_clear), "clear-period")
                    if got_clear:
                        ctx.label("clear-period")
                if exc is None:
                    ctx.check(raised is None, "feed %d raised %r although the keep-alive succeeded" % (i, raised), "raise-on-success")
                    ref_fail = 0
                    ctx.label("cleared")
                else:
                    ref_fail = ref_fail + 1
                    expect = ref_fail > A.MAX_WATCHDOG_FAILURES
                    ctx.check(expect == (raised is not None),
                              "feed %d: raised=%s but consecutive-failure rule says otherwise" % (i, raised is not None),
                              "raise-iff-exceeded")
                    if raised is not None:
                        ctx.check(raised is exc, "feed %d raised %r instead of the keep-alive failure" % (i, raised), "raise-kind")
                        ctx.label("raised")
                    else:
                        ctx.label("tolerated")
                ctx.observe(i, list(ez.calls), type(raised).__name__ if raised else None)
            return None

        vloop.run(main)


def _striker(ez, at, exc):
    """_maybe replacement: fail the keep-alive (at == 0) or the following getValue (at == 1)."""

    def maybe(name):
        ez.calls.append(name)
        if exc is None:
            return
        if at == 0 and name in ("nop", "read_counters", "read_and_clear_counters"):
            raise exc
        if at == 1 and name == "getValue":
            raise exc

    return maybe


FEED = Feed()


def main(tier):
    c = Check("C19", tier)
    c.assumptions += [
        "EZSP object replaced by a command-level stub (nop / read_counters / read_and_clear_counters / getValue)",
        "application object allocated without running zigpy's constructor; only state.counters, _ezsp and the two watchdog counters are set",
        "the tolerated maximum and the clear period are the module's configured constants",
        "on a successful feed the free-buffer value may be unreadable (non-success status of the value read): the keep-alive still succeeded",
        "keep-alive outcomes are success, asyncio.TimeoutError or EzspError raised by the keep-alive command or by the free-buffer read that belongs to the same feed",
    ]
    L = 4 if tier == "quick" else 5
    c.run("checks.c19:FEED", {"L": L})
    c.out_of_bounds += ["outcome sequences longer than %d feeds (start state: every failure count 0..max and every feed-counter value, both symbolic, so longer histories reduce to these start states)" % L]
    return c.finish()


if __name__ == "__main__":
    sys.exit(main(sys.argv[1] if len(sys.argv) > 1 else "quick"))
