"""C20 - the cross-thread proxy runs calls on the owner's loop and relays results (cooperative model).

The real ThreadsafeProxy (with the real run_coroutine_threadsafe / call_soon_threadsafe / wrap_future) is exercised with
TWO event loops that the harness steps alternately inside one OS thread: "the other thread" is approximated by "the other
running loop".  Solver-decided: method kind, on which loop the bound wrapper is fetched and on which it is invoked, the
owner loop's state, the burst size, and the order in which the two loops get to run.  A second harness drives
EventLoopThread.force_stop's shutdown routine on a stepped loop with a burst of in-flight calls whose clean-up needs a
solver-chosen number of extra iterations.  Pre-emptive OS-thread interleavings are outside this technique; one concrete
run with a real secondary thread covers start / stop."""
from __future__ import annotations

import asyncio
import sys
import threading

from symx import vloop
from symx.run import Check, Harness

KINDS = ("coro-value", "coro-raises", "plain-none", "plain-value", "plain-raises", "attribute")


class Boom(Exception):
    pass


class Obj:
    attribute = 42

    def __init__(self):
        self.ran = []  # (method, arg, running loop)

    def _rec(self, what, arg):
        try:
            loop = asyncio.get_running_loop()
        except RuntimeError:
            loop = None
        self.ran.append((what, arg, loop, threading.get_ident()))

    async def coro_value(self, i):
        self._rec("coro-value", i)
        await asyncio.sleep(0)
        return ("value", i)

    async def coro_raises(self, i):
        self._rec("coro-raises", i)
        await asyncio.sleep(0)
        raise Boom(i)

    def plain_none(self, i):
        self._rec("plain-none", i)

    def plain_value(self, i):
        self._rec("plain-value", i)
        return i

    def plain_raises(self, i):
        self._rec("plain-raises", i)
        raise Boom(i)


def step(loop):
    if loop.is_closed():
        return
    loop.call_soon(loop.stop)
    loop.run_forever()


def run_on(loop, fn):
    """Run fn() inside a callback of `loop` (so that it sees `loop` as the running loop)."""
    box = []

    def cb():
        try:
            box.append((True, fn()))
        except Exception as e:
            box.append((False, e))

    loop.call_soon(cb)
    step(loop)
    ok, v = box[0]
    if not ok:
        raise v
    return v


class Proxy(Harness):
    name = "c20_proxy"
    must_reach = ("cross-loop-coro", "cross-loop-plain", "same-loop", "closed-owner", "attribute-refused", "fetched-elsewhere", "plain-value-rejected")
    functions = ("ThreadsafeProxy.__getattr__", "ThreadsafeProxy.__init__")

    def run(self, ctx, steps=4, max_burst=2):
        from bellows.thread import ThreadsafeProxy

        kind = KINDS[ctx.choice("kind", len(KINDS))]
        caller_is_owner = ctx.flag("caller_is_owner")
        closed = (not caller_is_owner) and ctx.flag("owner_closed")
        fetch_on = ("invoking-loop", "owner-loop", "no-loop")[ctx.choice("fetch_on", 3)]
        burst = 1 + ctx.choice("burst", max_burst)
        order = [ctx.choice("step%d" % i, 2) for i in range(steps)] if not caller_is_owner and not closed else []

        Lo, Lc = vloop.VLoop(), vloop.VLoop()
        errors_o = []
        Lo.set_exception_handler(lambda loop, c: errors_o.append(c.get("exception")))
        try:
            obj = Obj()
            proxy = ThreadsafeProxy(obj, Lo)
            inv = Lo if caller_is_owner else Lc
            name = kind.replace("-", "_")
            what = "%s, invoked on the %s loop, wrapper fetched on %s, owner %s, burst %d" % (kind, "owner's" if caller_is_owner else "other", fetch_on, "closed" if closed else "running", burst)

            def fetch():
                return getattr(proxy, name)

            if kind == "attribute":
                ctx.label("attribute-refused")
                try:
                    run_on(inv, fetch) if fetch_on != "no-loop" else fetch()
                    ctx.fail("non-callable attribute handed out through the proxy (%s)" % what, "attribute-not-refused")
                except TypeError:
                    pass
                ctx.observe("attribute refused")
                return
            try:
                if fetch_on == "invoking-loop":
                    fn = run_on(inv, fetch)
                elif fetch_on == "owner-loop":
                    fn = run_on(Lo, fetch)
                    if not caller_is_owner:
                        ctx.label("fetched-elsewhere")
                else:
                    fn = fetch()
                    ctx.label("fetched-elsewhere")
            except Exception as e:
                ctx.fail("fetching the wrapper raised %s: %s (%s)" % (type(e).__name__, e, what), "fetch-raises")
            if closed:
                Lo.close()
            results = {}
            returned = {}

            async def caller():
                pend = []
                for i in range(burst):
                    try:
                        r = fn(i)
                    except Exception as e:
                        results[i] = ("raised", e)
                        continue
                    returned[i] = r
                    ran_at_return = len([x for x in obj.ran if x[1] == i])
                    results[i] = ("returned", r, ran_at_return)
                    if asyncio.isfuture(r) or asyncio.iscoroutine(r):
                        pend.append((i, r))
                for i, r in pend:
                    try:
                        results[i] = ("awaited", await r)
                    except Exception as e:
                        results[i] = ("awaited-raised", e)

            task = inv.create_task(caller())
            for o in order:
                step(Lo if o == 0 else Lc)
            for _ in range(12):
                step(Lc)
                step(Lo)
            if not task.done() and not closed:
                ctx.fail("caller still blocked after both loops ran dry (%s)" % what, "caller-blocked")
            # ---- oracle
            for i in range(burst):
                runs = [x for x in obj.ran if x[1] == i]
                res = results.get(i)
                if closed:
                    ctx.label("closed-owner")
                    ctx.check(not runs, "call on a closed owner loop was executed (%s)" % what, "executed-on-closed-loop")
                    ctx.check(res is not None and res[0] == "returned" and res[1] is None, "call on a closed owner loop: %r (%s)" % (res, what), "closed-loop-call")
                    continue
                ctx.check(len(runs) == 1, "call %d executed %d times (%s)" % (i, len(runs), what), "execution-count")
                ctx.check(runs[0][2] is Lo, "call %d executed with %s as the running loop instead of the owner's (%s)" % (i, "the caller's loop" if runs[0][2] is Lc else runs[0][2], what),
                          "ran-on-wrong-loop")
                if caller_is_owner:
                    ctx.label("same-loop")
                if kind.startswith("coro"):
                    if not caller_is_owner:
                        ctx.label("cross-loop-coro")
                    if kind == "coro-value":
                        ctx.check(res == ("awaited", ("value", i)), "caller of call %d received %r (%s)" % (i, res, what), "result-not-relayed")
                    else:
                        ctx.check(res is not None and res[0] == "awaited-raised" and isinstance(res[1], Boom) and res[1].args == (i,),
                                  "caller of call %d received %r instead of the exception raised (%s)" % (i, res, what), "exception-not-relayed")
                elif caller_is_owner:
                    # direct call: the plain method's own behaviour
                    if kind == "plain-raises":
                        ctx.check(res is not None and res[0] == "raised" and isinstance(res[1], Boom), "direct call result %r (%s)" % (res, what), "direct-call")
                    else:
                        ctx.check(res is not None and res[0] == "returned" and res[1] == (i if kind == "plain-value" else None), "direct call result %r (%s)" % (res, what), "direct-call")
                else:
                    ctx.label("cross-loop-plain")
                    ctx.check(res is not None and res[0] == "returned" and res[1] is None, "queued plain call returned %r to the caller (%s)" % (res, what), "plain-call-returns")
                    ctx.check(res is not None and res[2] == 0, "plain call from another loop was executed before the proxy call returned (%s)" % what, "plain-call-not-queued")
                    if kind == "plain-value":
                        ctx.label("plain-value-rejected")
                        ctx.check(any(isinstance(e, TypeError) for e in errors_o), "a plain method returning a value through the proxy was not rejected (%s)" % what, "plain-value-accepted")
            # order of a burst on the owner loop
            idx = [x[1] for x in obj.ran]
            ctx.check(idx == sorted(idx), "burst executed out of order: %r (%s)" % (idx, what), "burst-order")
            ctx.observe(kind, caller_is_owner, closed, fetch_on, burst, order, [(r[0] if r else None) for r in (results.get(i) for i in range(burst))])
        finally:
            for lp in (Lc, Lo):
                if not lp.is_closed():
                    for tk in asyncio.all_tasks(lp):
                        tk.cancel()
                    step(lp)
                    lp.close()


class Stop(Harness):
    """force_stop with a burst of in-flight proxied calls whose clean-up needs extra loop iterations."""

    name = "c20_force_stop"
    must_reach = ("stopped", "slow-cleanup")
    functions = ("EventLoopThread.force_stop", "EventLoopThread.run_coroutine_threadsafe", "ThreadsafeProxy.__getattr__")

    def run(self, ctx, max_burst=3, max_extra=3):
        from bellows.thread import EventLoopThread, ThreadsafeProxy

        burst = 1 + ctx.choice("burst", max_burst)
        extra = [ctx.choice("cleanup%d" % i, max_extra + 1) for i in range(burst)]
        warm = ctx.choice("warmup", 3)
        Lo, Lc = vloop.VLoop(), vloop.VLoop()
        try:
            cleaned = []

            class Port:
                async def transfer(self, i):
                    try:
                        await asyncio.sleep(3600)
                    except asyncio.CancelledError:
                        for _ in range(extra[i]):
                            await asyncio.sleep(0)  # closing a port, flushing ...
                        cleaned.append(i)
                        raise

            elt = EventLoopThread()
            elt.loop = Lo  # the loop its thread would be running
            proxy = ThreadsafeProxy(Port(), Lo)
            outcomes = {}

            async def caller(i):
                try:
                    outcomes[i] = ("ok", await proxy.transfer(i))
                except asyncio.CancelledError:
                    outcomes[i] = ("cancelled", None)
                except Exception as e:
                    outcomes[i] = ("raised", e)

            tasks = [Lc.create_task(caller(i)) for i in range(burst)]
            step(Lc)
            for _ in range(1 + warm):
                step(Lo)
            elt.force_stop()
            # what _thread_main does: run until the loop is stopped, then close it
            guard = Lo.call_later(10_000, Lo.stop)
            Lo.run_forever()
            guard.cancel()
            stopped_by_itself = Lo.time() < 9_000
            pending = [t for t in asyncio.all_tasks(Lo) if not t.done()]
            Lo.close()
            for _ in range(6):
                step(Lc)
            ctx.label("stopped")
            if any(extra):
                ctx.label("slow-cleanup")
            what = "burst %d, clean-up iterations %r" % (burst, extra)
            ctx.check(stopped_by_itself, "force_stop did not stop the owner's loop (%s)" % what, "loop-not-stopped")
            ctx.check(not pending, "%d task(s) still pending when the owner's loop stopped and was closed (%s)" % (len(pending), what), "tasks-destroyed-pending")
            for i in range(burst):
                ctx.check(i in outcomes, "caller %d got neither a result nor an exception after force_stop (%s)" % (i, what), "caller-blocked-after-stop")
                ctx.check(i in cleaned, "clean-up of call %d never ran to completion (%s)" % (i, what), "cleanup-incomplete")
            ctx.observe(burst, extra, warm, {i: o[0] for i, o in outcomes.items()})
        finally:
            for lp in (Lc, Lo):
                if not lp.is_closed():
                    for tk in asyncio.all_tasks(lp):
                        tk.cancel()
                    step(lp)
                    lp.close()


PROXY = Proxy()
STOP = Stop()


def real_thread_smoke(c):
    """One concrete run with a real secondary OS thread: start, proxied calls both ways, force_stop."""
    import time

    from bellows.thread import EventLoopThread, ThreadsafeProxy

    t0 = time.time()
    problems = []

    async def main():
        main_thread = threading.get_ident()
        thread = EventLoopThread()
        await thread.start()
        obj = Obj()
        proxy = ThreadsafeProxy(obj, thread.loop)
        r = await proxy.coro_value(1)
        if r != ("value", 1):
            problems.append("result %r" % (r,))
        try:
            await proxy.coro_raises(2)
            problems.append("exception not relayed")
        except Boom:
            pass
        proxy.plain_none(3)
        await asyncio.sleep(0.05)
        for what, arg, loop, ident in obj.ran:
            if ident == main_thread or loop is not thread.loop:
                problems.append("%s ran on the caller's thread/loop" % what)
        if [x[0] for x in obj.ran] != ["coro-value", "coro-raises", "plain-none"]:
            problems.append("calls executed: %r" % [x[0] for x in obj.ran])
        done = thread.thread_complete
        thread.force_stop()
        await asyncio.wait_for(done, 5)
        if not (thread.loop is None):
            problems.append("secondary loop not cleaned up after stop")

    try:
        asyncio.run(main())
    except Exception as e:
        problems.append("%s: %s" % (type(e).__name__, e))
    c.obligation("concrete run with a real secondary thread (EventLoopThread.start / proxied calls / force_stop)", not problems, time.time() - t0,
                 detail="; ".join(problems) or "calls ran on the secondary thread's loop, results and exceptions relayed, thread stopped")
    if problems:
        c.messages.append("real-thread smoke run failed: %s" % problems)
        c._raise(2)


def main(tier):
    c = Check("C20", tier, level="other")
    c.assumptions += [
        "'another thread' is approximated by 'another event loop stepped in the same OS thread': the harness alternates loop iterations of the owner's and the caller's loop in a solver-decided order; pre-emptive interleavings inside one loop iteration are not explored",
        "EventLoopThread.force_stop is driven on a stepped loop standing in for the thread's loop (the harness plays _thread_main: run until stopped, then close)",
        "one concrete run uses a real secondary thread (not symbolic, not exhaustive)",
    ]
    c.extra["explanation"] = ("Cooperative two-loop model of the proxy: every feasible assignment of method kind / fetch loop / invoking loop / owner state / burst / stepping order "
                              "is one solver-decided path of the real ThreadsafeProxy code; OS-thread pre-emption cannot be executed symbolically and is outside the claim.")
    if tier == "quick":
        c.run("checks.c20:PROXY", {"steps": 4, "max_burst": 3})
        c.run("checks.c20:STOP", {"max_burst": 3, "max_extra": 6})
    else:
        c.run("checks.c20:PROXY", {"steps": 6, "max_burst": 3})
        c.run("checks.c20:STOP", {"max_burst": 4, "max_extra": 8})
    real_thread_smoke(c)
    c.out_of_bounds += ["pre-emptive OS-thread interleavings", "bursts larger than 2-4 calls", "stepping prefixes longer than 3-6 decisions (afterwards both loops alternate until dry)"]
    return c.finish()


if __name__ == "__main__":
    sys.exit(main(sys.argv[1] if len(sys.argv) > 1 else "quick"))
