"""C05 - ASH sends end within the retry budget; a failed link stays silent until reset.

Real bellows.ash.AshProtocol (its `time` bound to the virtual clock) on a virtual-time event loop with a scripted peer.
Solver-decided: the start frame numbers, the peer's reaction to every DATA transmission {covering ACK, silence, NAK,
ACK with a symbolic non-covering number, ERROR with a symbolic code, piggy-backed acknowledgement on a DATA frame}, the
instant of the reaction relative to the acknowledgement timer {at once, just before, exactly at, just after expiry},
the reset code of the recovering RSTACK.  A wire-trace monitor, written from the property text, judges every path."""
from __future__ import annotations

import asyncio
import sys

from refs import ashref as R
from refs.stubs import FakeTransport
from symx import vloop
from symx.core import sor
from symx.run import Check, Harness
from symx.shadow import real_ash

EPS = 1e-6
DELTA = 0.001
PAY = [bytes([0x10 + k, 0xA0 + k, k]) for k in range(6)]
EXCEEDED = 0x51


class UpperT:
    def __init__(self, loop, ev):
        self.loop, self.ev = loop, ev

    def connection_made(self, tr):
        pass

    def data_received(self, data):
        self.ev.append(("up", self.loop.time(), "data", data))

    def reset_received(self, code):
        self.ev.append(("up", self.loop.time(), "reset", code))

    def error_received(self, code):
        self.ev.append(("up", self.loop.time(), "reset", code))

    def connection_lost(self, exc):
        self.ev.append(("up", self.loop.time(), "lost", None))


class Send(Harness):
    name = "c05_send"
    must_reach = ("acked-first", "acked-after-repeat", "exhausted-timeout", "exhausted-nak", "error-frame", "recovered",
                  "queued-send-failed", "repeat-after-nak", "repeat-after-timeout", "reset-requested-while-failed")
    functions = ("AshProtocol.send_data", "AshProtocol._send_data_frame", "AshProtocol._enter_failed_state",
                 "AshProtocol.error_frame_received", "AshProtocol.nak_frame_received", "AshProtocol._handle_ack",
                 "AshProtocol.rstack_frame_received", "AshProtocol._change_ack_timeout", "AshProtocol._write_frame")

    def must_reach_for(self, params):
        return [l for l in self.must_reach if l != "queued-send-failed" or params.get("q", 2) > 1]

    def run(self, ctx, q=2, T=5, stale=1, timing=0, piggy=False, txs=None):
        ash = real_ash()
        tx0 = ctx.int("tx", 0, 7)
        if txs is not None:
            ctx.require(sor(*[tx0 == v for v in txs]))
        rx0 = (0, 7)[ctx.choice("rx", 2)]
        ev = []
        st = {"n": 0, "stale": stale, "timing": timing, "boundary": False}

        async def main(loop):
            up = UpperT(loop, ev)
            p = ash.AshProtocol(up)
            tr = FakeTransport(loop)
            p.connection_made(tr)
            p._tx_seq = tx0
            p._rx_seq = rx0
            peer_frm = [rx0]  # next frame number the peer would use for its own DATA frames

            def deliver(kind, num, frame):
                ev.append(("rx", loop.time(), kind, num))
                p.frame_received(frame)

            def on_write(data):
                bs = list(data)
                body = bs[:-1]
                if body and body[0] == R.CAN:
                    body = body[1:]
                try:
                    fr = R.decode(R.unstuff(body))
                except R.Bad as e:
                    ctx.fail("host wrote an undecodable frame: %s" % e, "write-undecodable")
                ev.append(("tx", loop.time(), fr, p._t_rx_ack))
                if fr[0] != "DATA":
                    return
                f = fr[1]
                n = st["n"]
                st["n"] += 1
                if st.get("scripted") is not None:
                    kind = st["scripted"]
                elif n >= T:
                    kind = "ack"
                else:
                    opts = ["ack", "silence", "nak", "error"]
                    if st["stale"] > 0:
                        opts.append("stale")
                    if piggy:
                        opts.append("data")
                    kind = opts[ctx.choice("r%d" % n, len(opts))]
                if kind == "silence":
                    return
                delay = 0
                if st["timing"] > 0 and st.get("scripted") is None:
                    tm = ctx.choice("tm%d" % n, 4)
                    if tm:
                        st["timing"] -= 1
                        tau = p._t_rx_ack
                        delay = (None, tau - DELTA, tau, tau + DELTA)[tm]
                        if tm == 2:
                            st["boundary"] = True
                if kind == "ack":
                    args = ("ACK", (f + 1) % 8, ash.AckFrame(res=0, ncp_ready=0, ack_num=(f + 1) % 8))
                elif kind == "nak":
                    args = ("NAK", f, ash.NakFrame(res=0, ncp_ready=0, ack_num=f))
                elif kind == "stale":
                    st["stale"] -= 1
                    m = ctx.int("stale%d" % n, 0, 7)
                    ctx.require(m != (f + 1) % 8)
                    args = ("ACK", m, ash.AckFrame(res=0, ncp_ready=0, ack_num=m))
                elif kind == "error":
                    code = ctx.byte("err%d" % n)
                    args = ("ERROR", code, ash.ErrorFrame(version=2, reset_code=code))
                else:  # the peer's own DATA frame carrying the acknowledgement
                    args = ("DATA", (f + 1) % 8, ash.DataFrame(frm_num=peer_frm[0], re_tx=0, ack_num=(f + 1) % 8, ezsp_frame=b"\x55"))
                    peer_frm[0] = (peer_frm[0] + 1) % 8
                if delay:
                    loop.call_later(delay, deliver, *args)
                else:
                    loop.call_soon(deliver, *args)

            tr.on_write = on_write

            async def caller(k):
                try:
                    await p.send_data(PAY[k])
                    out = "ok"
                except Exception as e:
                    out = type(e).__name__
                ev.append(("done", loop.time(), k, out))

            try:
                await asyncio.gather(*[loop.create_task(caller(k)) for k in range(q)])
                failed = any(e[0] == "rx" and e[2] == "ERROR" for e in ev) or any(e[0] == "done" and e[3] != "ok" for e in ev)
                if failed:
                    # recovery: a further send must fail silently, an RSTACK must revive the link with numbering restarted
                    st["scripted"] = "ack"
                    await caller(q)
                    if ctx.flag("host_requests_reset"):
                        # the upper layer starts its reset (RST written); until the RSTACK arrives the link is still failed
                        ctx.label("reset-requested-while-failed")
                        p.send_reset()
                        await caller(q + 2)
                    code = ctx.byte("rstack")
                    ev.append(("rx", loop.time(), "RSTACK", code))
                    p.frame_received(ash.RStackFrame(version=2, reset_code=code))
                    await caller(q + 1)
                await asyncio.sleep(5)  # late deliveries land in the log, nothing may be written
            except vloop.Deadlock:
                ctx.fail("a send neither returned nor raised (event loop idle forever)", "send-hangs")
            return None

        vloop.run(main)
        monitor(ctx, ev, tx0, q, st["boundary"])
        ctx.observe([_short(e) for e in ev])


def _short(e):
    if e[0] == "tx":
        return ("tx", round(e[1], 4), list(e[2][:4]) if e[2][0] == "DATA" else list(e[2]))
    if e[0] == "done":
        return ("done", round(e[1], 4), e[2], e[3])
    return (e[0], round(e[1], 4), e[2], e[3])


def monitor(ctx, ev, tx0, q, boundary):
    """Trace predicates of C05.  `ev` is the ordered event log; all numbers are concrete except reset codes."""
    sends = {}
    order = []
    for i, e in enumerate(ev):
        if e[0] == "tx" and e[2][0] == "DATA":
            _, frm, retx, ack, payload = e[2]
            pl = bytes(payload)
            ctx.check(pl in PAY, "a DATA frame with a payload nobody submitted was written", "payload-invented")
            k = PAY.index(pl)
            if k not in sends:
                sends[k] = []
                order.append(k)
            sends[k].append({"i": i, "t": e[1], "frm": frm, "retx": retx, "tau": e[3]})
    done = {e[2]: (i, e[1], e[3]) for i, e in enumerate(ev) if e[0] == "done"}
    rstack_i = [i for i, e in enumerate(ev) if e[0] == "rx" and e[2] == "RSTACK"]
    error_i = [i for i, e in enumerate(ev) if e[0] == "rx" and e[2] == "ERROR"]

    def revived(a, b):
        return any(a < r < b for r in rstack_i)

    # P1/P2: attempt budget, stable frame number, reTx flag exactly on repeats
    for k, ws in sends.items():
        ctx.check(len(ws) <= R.MAX_ATTEMPTS, "send %d transmitted its DATA frame %d times (budget %d)" % (k, len(ws), R.MAX_ATTEMPTS), "budget-exceeded")
        for j, w in enumerate(ws):
            ctx.check(w["frm"] == ws[0]["frm"], "send %d changed its frame number on attempt %d" % (k, j + 1), "frmnum-changed")
            ctx.check(w["retx"] == (1 if j else 0), "send %d attempt %d: reTx flag is %d" % (k, j + 1, w["retx"]), "retx-flag")
            ctx.check(R.T_RX_ACK_MIN - EPS <= w["tau"] <= R.T_RX_ACK_MAX + EPS,
                      "acknowledgement timeout %.3f outside the protocol range" % w["tau"], "tau-range")
        # P3: a repeat follows a NAK at once or the previous transmission by a legal timeout
        for a, b in zip(ws, ws[1:]):
            naks = [e for e in ev[a["i"]:b["i"]] if e[0] == "rx" and e[2] == "NAK" and abs(e[1] - b["t"]) < EPS]
            gap = b["t"] - a["t"]
            if naks:
                ctx.label("repeat-after-nak")
            else:
                ctx.label("repeat-after-timeout")
                ctx.check(R.T_RX_ACK_MIN - EPS <= gap <= R.T_RX_ACK_MAX + EPS,
                          "send %d repeated after %.3f s without a NAK (legal timeout range %.1f..%.1f)" % (k, gap, R.T_RX_ACK_MIN, R.T_RX_ACK_MAX),
                          "repeat-gap")

    # failure points seen by the monitor
    fail_pts = list(error_i)
    exhausted = []
    for k, ws in sends.items():
        if k in done and done[k][2] != "ok" and len(ws) >= R.MAX_ATTEMPTS:
            last = ws[-1]
            if not any(last["i"] < x < done[k][0] for x in error_i):
                exhausted.append(k)
                fail_pts.append(last["i"])
                nak_end = any(e[0] == "rx" and e[2] == "NAK" for e in ev[last["i"]:done[k][0]])
                ctx.label("exhausted-nak" if nak_end else "exhausted-timeout")

    # P5: outcome
    for k in range(q + 3):
        if k not in done:
            continue
        di, dt, out = done[k]
        ws = sends.get(k, [])
        if out == "ok":
            ctx.check(bool(ws), "send %d reported success without transmitting anything" % k, "ok-without-tx")
            if ws:
                cover = [i for i, e in enumerate(ev) if e[0] == "rx" and e[2] in ("ACK", "DATA") and e[3] == (ws[0]["frm"] + 1) % 8
                         and ws[0]["i"] < i < di]
                ctx.check(bool(cover), "send %d returned normally although no acknowledgement covering frame %d arrived while it was pending"
                          % (k, ws[0]["frm"]), "ok-without-ack")
                ctx.label("acked-first" if len(ws) == 1 else "acked-after-repeat")
        elif ws and not boundary:
            # completeness away from the timer boundary: a covering acknowledgement that arrives while the frame is
            # pending (link not failed, attempt window open) must complete the send
            for i, e in enumerate(ev):
                if e[0] == "rx" and e[2] in ("ACK", "DATA") and e[3] == (ws[0]["frm"] + 1) % 8 and ws[0]["i"] < i < di:
                    cur = [w for w in ws if w["i"] < i][-1]
                    open_ = e[1] < cur["t"] + cur["tau"] - EPS
                    dead = any(fp < i for fp in fail_pts if fp > ws[0]["i"]) or any(x < i for x in error_i)
                    if open_ and not dead:
                        ctx.fail("send %d raised %s although a covering acknowledgement arrived in time" % (k, out), "raise-despite-ack")

    # P6: the upper layer is told exactly once per failure, with the reason
    ups = [(i, e) for i, e in enumerate(ev) if e[0] == "up" and e[2] == "reset"]
    expected = []
    for i in error_i:
        expected.append((i, ev[i][3], "ERROR frame"))
    for k in exhausted:
        expected.append((sends[k][-1]["i"], EXCEEDED, "retry budget exhausted by send %d" % k))
    for i in rstack_i:
        expected.append((i, ev[i][3], "RSTACK"))
    expected.sort(key=lambda x: x[0])
    if not boundary:
        ctx.check(len(ups) == len(expected),
                  "upper layer notified %d times, expected %d (%s)" % (len(ups), len(expected), ", ".join(x[2] for x in expected) or "none"),
                  "notify-count:%d-vs-%d" % (len(ups), len(expected)))
        for (ui, ue), (xi, code, what) in zip(ups, expected):
            ctx.check(ui > xi, "notification precedes its cause (%s)" % what, "notify-order")
            ctx.check(ue[3] == code, "upper layer told a different reason than the %s carried" % what, "notify-code")
    if error_i:
        ctx.label("error-frame")

    # P7: silence after failure until an RSTACK
    for fp in fail_pts:
        for i, e in enumerate(ev):
            if i > fp and e[0] == "tx" and e[2][0] == "DATA" and not revived(fp, i):
                ctx.fail("a DATA frame was written after the link had failed and before any RSTACK", "data-while-failed")
    # P8: sends waiting at a failure point fail
    for k, (di, dt, out) in done.items():
        if out == "ok" and fail_pts and k < q:
            ws = sends.get(k, [])
            if ws and any(fp < ws[0]["i"] and not revived(fp, ws[0]["i"]) for fp in fail_pts):
                ctx.fail("send %d succeeded although the link had already failed" % k, "ok-after-failure")
        if out != "ok" and k < q and k not in sends and fail_pts:
            ctx.label("queued-send-failed")
    for k in range(q):
        ctx.check(k in done, "send %d never finished" % k, "send-unfinished")

    # P9: at most one unacknowledged DATA frame outstanding
    for n, k in enumerate(order):
        first = sends[k][0]["i"]
        for j in order[:n]:
            fj = sends[j][0]
            covered = any(e[0] == "rx" and e[2] in ("ACK", "DATA") and e[3] == (fj["frm"] + 1) % 8 and fj["i"] < i < first
                          for i, e in enumerate(ev))
            ctx.check(covered or revived(fj["i"], first),
                      "send %d put a new DATA frame on the wire while frame %d of send %d was still unacknowledged" % (k, fj["frm"], j),
                      "two-outstanding")
    # P10: consecutive frame numbers (restarting at zero after an RSTACK)
    exp = tx0
    prev_i = -1
    for k in order:
        fi = sends[k][0]["i"]
        if revived(prev_i, fi):
            exp = 0
            ctx.label("recovered")
        ctx.check(sends[k][0]["frm"] == exp, "send %d used frame number %d, expected %d" % (k, sends[k][0]["frm"], int(exp) if not hasattr(exp, "t") else -1),
                  "frmnum-sequence")
        exp = (sends[k][0]["frm"] + 1) % 8
        prev_i = fi
    # recovery phase expectations
    if q in done:
        ctx.check(done[q][2] != "ok" and q not in sends, "a send on the failed link was transmitted or succeeded", "failed-link-send")
        if q + 2 in done:
            ctx.check(done[q + 2][2] != "ok" and q + 2 not in sends, "a send issued after the host's RST but before the RSTACK was transmitted or succeeded", "send-between-rst-and-rstack")
        if q + 1 in done:
            ctx.check(done[q + 1][2] == "ok", "send after the RSTACK failed with %s" % done[q + 1][2], "send-after-rstack")
            if q + 1 in sends:
                ctx.check(sends[q + 1][0]["frm"] == 0 and sends[q + 1][0]["retx"] == 0, "numbering did not restart at zero after RSTACK", "rstack-restart")


class MidReset(Harness):
    """A send is in flight and unacknowledged, an RSTACK arrives (the NCP restarted), a new send is started afterwards:
    the transmit window must still hold - no second DATA frame goes out while the first one is unacknowledged and its
    send has not ended."""

    name = "c05_midreset"
    must_reach = ("old-acked-later", "old-never-acked")
    functions = ("AshProtocol.send_data", "AshProtocol._send_data_frame", "AshProtocol.rstack_frame_received")

    def run(self, ctx):
        ash = real_ash()
        tx0 = (0, 2, 7)[ctx.choice("tx", 3)]
        rst_at = (0.3, 1.7)[ctx.choice("rstack_at", 2)]
        new_at = (0.05, 0.5)[ctx.choice("new_send_after", 2)]
        ack_old = ctx.choice("ack_old_on_attempt", 4)  # 0 = never, k = acknowledge the k-th retransmission of the old frame
        code = ctx.byte("code")
        ev = []

        async def main(loop):
            up = UpperT(loop, ev)
            p = ash.AshProtocol(up)
            tr = FakeTransport(loop)
            p.connection_made(tr)
            p._tx_seq = tx0
            seen = {}

            def on_write(data):
                bs = list(data)
                fr = R.decode(R.unstuff(bs[:-1]))
                ev.append(("tx", loop.time(), fr, p._t_rx_ack))
                if fr[0] != "DATA":
                    return
                k = PAY.index(bytes(fr[4]))
                seen[k] = seen.get(k, 0) + 1
                if k == 1 or (k == 0 and ack_old and seen[0] == ack_old + 1):
                    num = (fr[1] + 1) % 8
                    loop.call_soon(lambda: (ev.append(("rx", loop.time(), "ACK", num)), p.frame_received(ash.AckFrame(res=0, ncp_ready=0, ack_num=num))))

            tr.on_write = on_write
            out = {}

            async def caller(k):
                try:
                    await p.send_data(PAY[k])
                    out[k] = "ok"
                except Exception as e:
                    out[k] = type(e).__name__
                ev.append(("done", loop.time(), k, out[k]))

            t0 = loop.create_task(caller(0))
            await asyncio.sleep(rst_at)
            ev.append(("rx", loop.time(), "RSTACK", code))
            p.frame_received(ash.RStackFrame(version=2, reset_code=code))
            await asyncio.sleep(new_at)
            t1 = loop.create_task(caller(1))
            try:
                await asyncio.gather(t0, t1)
            except vloop.Deadlock:
                ctx.fail("a send never finished", "send-hangs")
            await asyncio.sleep(1)

        vloop.run(main)
        ctx.label("old-acked-later" if ack_old else "old-never-acked")
        # the window: when the first DATA frame of the new send is written, the old send must have ended
        first_new = [i for i, e in enumerate(ev) if e[0] == "tx" and e[2][0] == "DATA" and bytes(e[2][4]) == PAY[1]]
        old_done = [i for i, e in enumerate(ev) if e[0] == "done" and e[2] == 0]
        old_acked = [i for i, e in enumerate(ev) if e[0] == "rx" and e[2] == "ACK" and any(x[0] == "tx" and x[2][0] == "DATA" and bytes(x[2][4]) == PAY[0] and (x[2][1] + 1) % 8 == e[3] for x in ev[:i])]
        if first_new:
            ended = (old_done and old_done[0] < first_new[0]) or (old_acked and old_acked[0] < first_new[0])
            ctx.check(bool(ended), "a second DATA frame was written while the first send's frame was still unacknowledged and its send had not ended (RSTACK in between)", "two-outstanding-after-rstack")
        # budget and stability of the old send across the RSTACK
        old = [e for e in ev if e[0] == "tx" and e[2][0] == "DATA" and bytes(e[2][4]) == PAY[0]]
        ctx.check(len(old) <= R.MAX_ATTEMPTS, "old send transmitted %d times" % len(old), "budget-exceeded")
        ctx.check(all(e[2][1] == old[0][2][1] for e in old), "old send changed its frame number across the RSTACK", "frmnum-changed")
        ctx.observe([_short(e) for e in ev])


class TwoLinks(Harness):
    """Two independent ASH links in one process (two coordinators, or an old and a new connection) with the same frame
    number in flight: an acknowledgement on one link acknowledges nothing on the other."""

    name = "c05_two_links"
    must_reach = ("acked-link-returns",)
    functions = ("AshProtocol.__init__", "AshProtocol._send_data_frame", "AshProtocol._handle_ack")

    def run(self, ctx):
        ash = real_ash()
        tx = (0, 7)[ctx.choice("tx", 2)]
        acked = ctx.choice("acked_link", 2)
        first = ctx.choice("first_sender", 2)
        ev = []

        async def main(loop):
            links = []
            for i in range(2):
                up = UpperT(loop, ev)
                p = ash.AshProtocol(up)
                tr = FakeTransport(loop)
                p.connection_made(tr)
                p._tx_seq = tx
                links.append((p, tr))
            out = {}

            async def caller(i):
                try:
                    await links[i][0].send_data(PAY[i])
                    out[i] = ("ok", loop.time())
                except Exception as e:
                    out[i] = (type(e).__name__, loop.time())

            order = [first, 1 - first]
            tasks = [loop.create_task(caller(order[0]))]
            await asyncio.sleep(0.01)
            tasks.append(loop.create_task(caller(order[1])))
            await asyncio.sleep(0.19)
            links[acked][0].frame_received(ash.AckFrame(res=0, ncp_ready=0, ack_num=(tx + 1) % 8))
            await asyncio.gather(*tasks)
            ctx.label("acked-link-returns")
            ctx.check(out[acked][0] == "ok" and abs(out[acked][1] - 0.2) < EPS, "the acknowledged link's send ended with %s at %.3f s" % out[acked], "two-links-acked")
            other = 1 - acked
            ctx.check(out[other][0] != "ok", "a send on a link whose peer is silent returned normally because ANOTHER link was acknowledged", "two-links-cross-ack")
            n_other = len([w for w in links[other][1].writes])
            ctx.check(n_other == R.MAX_ATTEMPTS, "the silent link transmitted %d times (budget %d)" % (n_other, R.MAX_ATTEMPTS), "two-links-budget")
            ctx.observe(tx, acked, first, out[0][0], out[1][0])

        vloop.run(main)


SEND = Send()
MIDRESET = MidReset()
TWOLINKS = TwoLinks()

FLOATS = [float("nan"), float("inf"), float("-inf"), -1.0, 0.0, 0.39, 0.4, 0.41, 1.6, 3.19, 3.2, 3.21, 6.4, 1e308, -1e308, 5e-324]


class Clamp(Harness):
    """Enumerated companion of the CrossHair float lemma (gives a replayable witness when the lemma is refuted)."""

    name = "c05_clamp"
    functions = ("AshProtocol._change_ack_timeout",)

    def run(self, ctx):
        ash = real_ash()
        cur = (0.4, 1.6, 3.2, 0.7)[ctx.choice("cur", 4)]
        new = FLOATS[ctx.choice("new", len(FLOATS))]
        p = object.__new__(ash.AshProtocol)
        p._t_rx_ack = cur
        p._change_ack_timeout(new)
        ctx.check(R.T_RX_ACK_MIN <= p._t_rx_ack <= R.T_RX_ACK_MAX,
                  "_change_ack_timeout(%r) from %r left the timeout at %r" % (new, cur, p._t_rx_ack), "clamp-range")
        ctx.observe(repr(p._t_rx_ack))


CLAMP = Clamp()


def lemma_timeout_clamp(c):
    """Float lemma through CrossHair: _change_ack_timeout leaves the timeout inside [MIN, MAX] for every float."""
    import os
    import subprocess
    import time

    here = os.path.dirname(os.path.abspath(__file__))
    target = os.path.join(here, "c05_lemma.py")
    t0 = time.time()
    exe = os.path.join(os.path.dirname(sys.executable), "crosshair")
    try:
        r = subprocess.run([sys.executable, "-m", "crosshair", "check", "--report_all", "--per_condition_timeout", "60",
                            target], capture_output=True, text=True, timeout=240,
                           env=dict(os.environ, PYTHONPATH=os.path.dirname(here)))
        out = r.stdout + r.stderr
    except subprocess.TimeoutExpired:
        out = "timeout"
    dt = time.time() - t0
    confirmed = out.count("Confirmed over all paths")
    bad = [l for l in out.splitlines() if "error:" in l or "false when" in l.lower()]
    ok = confirmed >= 1 and not bad and "Not confirmed" not in out and "Unable to meet" not in out
    if bad:
        c.messages.append("CrossHair lemma counterexample: %s" % bad[:2])
    c.obligation("crosshair: _change_ack_timeout keeps _t_rx_ack in [T_RX_ACK_MIN, T_RX_ACK_MAX] for all floats (incl. NaN/inf)",
                 ok, dt, detail=out.strip()[-400:], inconclusive=not ok and not bad)
    return ok, bad, out


def main(tier):
    c = Check("C05", tier)
    c.assumptions += [
        "peer scripted at frame level (frames injected as objects through AshProtocol.frame_received, each as its own loop callback); wire decoding is C02/C03",
        "virtual-time event loop; bellows.ash.time bound to the loop clock",
        "a NAK carries the number of the frame it rejects (conforming peer); acknowledgements exactly at the timer instant are don't-care for the outcome/notification clauses",
        "in the reaction-schedule harness RSTACK is injected only after the link failed; a separate harness delivers an RSTACK while a send is in flight and checks only the transmit window, the attempt budget and the stability of the frame number (numbering after such a restart is the subject of known finding D6)",
        "reference constants (attempt budget 5, timeout range 0.4..3.2 s) from UG101, not read from bellows",
    ]
    if tier == "quick":
        c.run("checks.c05:SEND", {"q": 2, "T": 6, "stale": 1, "timing": 0, "txs": [0, 7]})
        c.run("checks.c05:SEND", {"q": 1, "T": 5, "stale": 0, "timing": 1, "txs": [7]})
        c.out_of_bounds += ["free peer reactions beyond the first 6 DATA transmissions (then always a covering ACK)",
                            "start frame numbers other than 0, 7 (thorough: all 8)", "more than one off-instant reaction per run"]
    else:
        c.run("checks.c05:SEND", {"q": 2, "T": 7, "stale": 1, "timing": 0, "piggy": True})
        c.run("checks.c05:SEND", {"q": 3, "T": 6, "stale": 0, "timing": 0, "txs": [6]})
        c.run("checks.c05:SEND", {"q": 2, "T": 6, "stale": 0, "timing": 2, "txs": [7]})
        c.out_of_bounds += ["free peer reactions beyond the first 6-7 DATA transmissions", "more than two off-instant reactions per run"]
    c.run("checks.c05:MIDRESET", {})
    c.run("checks.c05:TWOLINKS", {})
    c.run("checks.c05:CLAMP", {})
    ok, bad, out = lemma_timeout_clamp(c)
    if bad and not c.violation_lines:
        c.messages.append("INCONCLUSIVE: float lemma refuted by CrossHair but not reproduced by the enumerated companion - see obligation detail")
        c._raise(2)
    return c.finish()


if __name__ == "__main__":
    sys.exit(main(sys.argv[1] if len(sys.argv) > 1 else "quick"))
