"""C17 - event-completed operations never miss their completing event or leak listeners.

Real EZSP.formNetwork / leaveNetwork / startScan (_list_command) / wait_for_stack_status and the real
ControllerApplication._ensure_network_running on the real protocol handler; every NCP frame (command response, status
event, scan result, scan completion) is injected byte-level through EZSP.frame_received as its own loop callback.
Solver-decided: protocol version, operation, and the ordered schedule of events after the command was issued
{response OK / refusal, matching event, non-matching event, result, completion OK / failed, caller cancellation}."""
from __future__ import annotations

import asyncio
import sys

from refs import ezspref as E
from symx import vloop
from symx.run import Check, Harness

from checks.c06 import Gw, make_ezsp

EPS = 1e-6
STEP = 0.1
T_CMD = 10.0
T_OP = 10.0


def consts(version):
    import bellows.types as t

    if version >= 14:
        S = t.sl_Status
        return {"up": int(S.NETWORK_UP), "down": int(S.NETWORK_DOWN), "ok": int(S.OK), "refuse": int(S.INVALID_STATE), "notjoined": int(S.NOT_JOINED)}
    S = t.EmberStatus
    return {"up": int(S.NETWORK_UP), "down": int(S.NETWORK_DOWN), "ok": int(S.SUCCESS), "refuse": int(S.INVALID_CALL), "notjoined": int(S.NOT_JOINED)}


class Env:
    def __init__(self, loop, version):
        self.loop = loop
        self.version = version
        self.gw = Gw(loop)
        self.ez = make_ezsp(version, self.gw)
        self.ph = self.ez._protocol
        self.seen = []
        self.ez.add_callback(lambda *a: self.seen.append(a))
        self.base_callbacks = len(self.ez._callbacks)
        self.K = consts(version)
        self.last_seq = 0xEE

    def frame(self, name, values, seq=None):
        fid, _tx, rx = self.ph.COMMANDS[name]
        if isinstance(rx, dict) and len(values) < len(rx):
            values = list(values) + E.sample_schema(rx, 0)[len(values):]  # later protocol versions append fields
        return bytes(E.header(self.version, self.last_seq if seq is None else seq, fid, callback=seq is None) + E.enc_schema(rx, values))

    def inject(self, name, values, seq=None):
        if seq is not None:
            self.last_seq = seq
        self.ez.frame_received(self.frame(name, values, seq))

    def request(self, index=-1):
        """(name, seq) of a request frame the host wrote."""
        _t, data, _task = self.gw.sent[index]
        seq, _fc, fid, _pl = E.parse_header(self.version, data)
        return self.ph.COMMANDS_BY_ID[fid][0], seq

    def leak_check(self, ctx, what):
        ez = self.ez
        left = {int(k): len(v) for k, v in ez._stack_status_listeners.items() if v}
        ctx.check(not left, "%s ended but status listeners remain registered: %r" % (what, left), "listener-leak")
        ctx.check(len(ez._callbacks) == self.base_callbacks, "%s ended but %d extra callback(s) remain registered" % (what, len(ez._callbacks) - self.base_callbacks), "callback-leak")
        # an event injected now reaches the baseline callbacks once each and disturbs nothing
        for nm, vals in (("stackStatusHandler", [self.K["up"]]), ("stackStatusHandler", [self.K["down"]]),
                         ("energyScanResultHandler", [11, -40]), ("scanCompleteHandler", [0, self.K["ok"]])):
            n0 = len(self.seen)
            try:
                self.inject(nm, vals)
            except Exception as e:
                ctx.fail("event after the end of %s raised %s" % (what, type(e).__name__), "post-event-raises")
            ctx.check(len(self.seen) == n0 + 1, "event after the end of %s reached the recording callback %d times" % (what, len(self.seen) - n0), "post-event-count")


async def run_op(coro):
    loop = asyncio.get_running_loop()
    try:
        r = await coro
        return ("ok", loop.time(), r)
    except asyncio.CancelledError:
        return ("cancelled", loop.time(), None)
    except Exception as e:
        return (type(e).__name__, loop.time(), e)


STATUS_EVENTS = ("R_ok", "R_fail", "M", "N", "CANCEL")


class StatusOp(Harness):
    name = "c17_status_op"
    must_reach = ("completed", "event-before-response", "refused", "timeout", "cancelled", "no-response")
    functions = ("EZSP.formNetwork", "EZSP.leaveNetwork", "EZSP.wait_for_stack_status", "EZSP.stack_status_callback",
                 "ControllerApplication._ensure_network_running", "EZSP.frame_received", "ProtocolHandler.__call__")

    def run(self, ctx, versions=(8,), ops=("form", "leave", "bringup"), depth=3):
        version = versions[ctx.choice("version", len(versions))]
        op = ops[ctx.choice("op", len(ops))]
        # schedule: sequence without repetition, at most one response
        sched = []
        for i in range(depth):
            opts = [e for e in STATUS_EVENTS if e not in sched and not (e.startswith("R_") and any(x.startswith("R_") for x in sched))]
            opts.append("END")
            e = opts[ctx.choice("ev%d" % i, len(opts))]
            if e == "END":
                break
            sched.append(e)
            if e == "CANCEL":
                break

        async def main(loop):
            env = Env(loop, version)
            ez, K = env.ez, env.K
            import bellows.types as t

            if op == "form":
                params = E.build(t.EmberNetworkParameters, E.sample(t.EmberNetworkParameters, 3))
                coro, cmd, match, other = ez.formNetwork(params), "formNetwork", K["up"], K["down"]
            elif op == "leave":
                coro, cmd, match, other = ez.leaveNetwork(), "leaveNetwork", K["down"], K["up"]
            else:
                import bellows.zigbee.application as A

                app = object.__new__(A.ControllerApplication)
                app._ezsp = ez
                coro, match, other = app._ensure_network_running(), K["up"], K["down"]
                cmd = "networkInit" if version >= 6 else "networkInitExtended"
            task = loop.create_task(run_op(coro))
            await asyncio.sleep(0)
            if op == "bringup":
                name, seq = env.request()
                ctx.check(name == "networkState", "bring-up started with %s" % name, "bringup-first-command")
                env.inject("networkState", [int(t.EmberNetworkStatus.NO_NETWORK)], seq)
                await asyncio.sleep(0)
            name, seq = env.request()
            ctx.check(name == cmd, "operation %s issued %s instead of %s" % (op, name, cmd), "wrong-command")
            t0 = loop.time()
            # reference model of the operation
            exp = None  # (kind, time)
            seen_m = False
            t_resp = None
            for i, e in enumerate(sched):
                at = t0 + STEP * (i + 1)
                if e == "M":
                    seen_m = True
                    loop.call_at(at, env.inject, "stackStatusHandler", [match])
                    if exp is None and t_resp is not None:
                        exp = ("ok", at)
                elif e == "N":
                    loop.call_at(at, env.inject, "stackStatusHandler", [other])
                elif e == "R_ok":
                    loop.call_at(at, env.inject, cmd, [K["ok"]], seq)
                    t_resp = at
                    if exp is None and seen_m:
                        exp = ("ok", at)
                elif e == "R_fail":
                    loop.call_at(at, env.inject, cmd, [K["refuse"]], seq)
                    if exp is None:
                        exp = ("raise", at)
                    t_resp = at
                elif e == "CANCEL":
                    loop.call_at(at, task.cancel)
                    if exp is None:
                        exp = ("cancelled", at)
            if exp is None:
                if t_resp is None:
                    exp = ("raise", t0 + T_CMD)  # the command itself times out
                    ctx.label("no-response")
                else:
                    exp = ("timeout", t_resp + T_OP)
            try:
                kind, t_end, val = await task
            except vloop.Deadlock:
                ctx.fail("%s never ended (schedule %r)" % (op, sched), "op-hangs")
            what = "%s (v%d, schedule %s)" % (op, version, ",".join(sched) or "silence")
            if exp[0] == "ok":
                ctx.label("completed")
                if "M" in sched and ("R_ok" in sched) and sched.index("M") < sched.index("R_ok"):
                    ctx.label("event-before-response")
                ctx.check(kind == "ok", "%s: command accepted and matching event arrived after issue, yet it ended with %s" % (what, kind),
                          "missed-event" if kind == "TimeoutError" else "not-completed")
                if op == "bringup" and kind == "ok":
                    ctx.check(val is True, "bring-up returned %r" % (val,), "bringup-result")
            elif exp[0] == "raise":
                ctx.label("refused" if t_resp is not None else "no-response")
                ctx.check(kind not in ("ok", "cancelled"), "%s: command refused / unanswered, yet the operation ended with %s" % (what, kind), "completed-despite-refusal")
            elif exp[0] == "timeout":
                ctx.label("timeout")
                ctx.check(kind == "TimeoutError", "%s: matching event never arrived, yet the operation ended with %s" % (what, kind),
                          "completed-without-event" if kind == "ok" else "no-timeout")
            else:
                ctx.label("cancelled")
                ctx.check(kind == "cancelled", "%s: caller cancelled, operation ended with %s" % (what, kind), "cancel-outcome")
            ctx.check(abs(t_end - exp[1]) < EPS, "%s ended at +%.3f s, expected +%.3f s" % (what, t_end - t0, exp[1] - t0), "end-time")
            await asyncio.sleep(STEP * (depth + 2))  # scheduled events that come after the end still arrive
            env.leak_check(ctx, what)
            # repetition: the same operation once more on the same stack completes on its own response + event
            if op != "bringup":
                n0 = len(env.gw.sent)
                task2 = loop.create_task(run_op(ez.formNetwork(params) if op == "form" else ez.leaveNetwork()))
                await asyncio.sleep(0)
                ctx.check(len(env.gw.sent) == n0 + 1, "repeated %s wrote %d frames" % (op, len(env.gw.sent) - n0), "repeat-not-issued")
                name2, seq2 = env.request()
                loop.call_later(STEP, env.inject, "stackStatusHandler", [match])
                loop.call_later(2 * STEP, env.inject, cmd, [K["ok"]], seq2)
                k2, t2, _ = await task2
                ctx.check(k2 == "ok", "repeated %s after (%s) ended with %s" % (op, what, k2), "repeat-outcome")
                env.leak_check(ctx, "repeated " + op)
            ctx.observe(version, op, sched, kind, round(t_end - t0, 3))

        vloop.run(main)


SCAN_EVENTS = ("R_ok", "R_fail", "res", "res", "C_ok", "C_fail", "CANCEL")


class Scan(Harness):
    name = "c17_scan"
    must_reach = ("returned", "results-before-response", "completion-before-response", "refused", "scan-failed", "cancelled", "cancelled-in-command-phase")
    functions = ("EZSP._list_command", "EZSP.startScan", "EZSP.add_callback", "EZSP.remove_callback", "EZSP.handle_callback")

    def run(self, ctx, versions=(8,), depth=4):
        version = versions[ctx.choice("version", len(versions))]
        pre = ctx.flag("pre_result")
        sched = []
        for i in range(depth):
            opts = []
            if not any(x.startswith("R_") for x in sched):
                opts += ["R_ok", "R_fail"]
            if not any(x.startswith("C_") for x in sched):
                opts += ["C_ok", "C_fail"]
                if sched.count("res") < 2:
                    opts.append("res")  # results after the completion frame are outside the domain
            opts += ["CANCEL", "END"]
            e = opts[ctx.choice("ev%d" % i, len(opts))]
            if e == "END":
                break
            sched.append(e)
            if e == "CANCEL":
                break
        # a scan that is neither completed, refused, unanswered nor cancelled waits forever by design: outside the property
        has_r = [x for x in sched if x.startswith("R_")]
        has_c = [x for x in sched if x.startswith("C_")]
        ctx.require(("CANCEL" in sched) or (not has_r) or has_r == ["R_fail"] or bool(has_c))

        async def main(loop):
            import bellows.types as t

            env = Env(loop, version)
            ez, K = env.ez, env.K
            if pre:
                env.inject("energyScanResultHandler", [25, -99])
            names = list(env.ph.COMMANDS["startScan"][1])
            vals = [t.EzspNetworkScanType.ENERGY_SCAN, t.Channels.ALL_CHANNELS, 3]
            task = loop.create_task(run_op(ez.startScan(**dict(zip(names, vals)))))
            await asyncio.sleep(0)
            name, seq = env.request()
            ctx.check(name == "startScan", "scan issued %s" % name, "wrong-command")
            t0 = loop.time()
            exp_results = []
            t_r = t_c = None
            r_ok = c_ok = None
            exp = None
            nres = 0
            for i, e in enumerate(sched):
                at = t0 + STEP * (i + 1)
                if e == "res":
                    nres += 1
                    v = [10 + nres, -30 - nres]
                    loop.call_at(at, env.inject, "energyScanResultHandler", v)
                    if exp is None:
                        exp_results.append(v)
                elif e in ("R_ok", "R_fail"):
                    r_ok = e == "R_ok"
                    t_r = at
                    loop.call_at(at, env.inject, "startScan", [K["ok"] if r_ok else K["refuse"]], seq)
                    if exp is None and not r_ok:
                        exp = ("raise", at)
                    elif exp is None and t_c is not None:
                        exp = ("ok" if c_ok else "raise", at)
                elif e in ("C_ok", "C_fail"):
                    c_ok = e == "C_ok"
                    t_c = at
                    loop.call_at(at, env.inject, "scanCompleteHandler", [0, K["ok"] if c_ok else K["refuse"]])
                    if exp is None and t_r is not None:
                        exp = ("ok" if c_ok else "raise", at)
                elif e == "CANCEL":
                    loop.call_at(at, task.cancel)
                    if exp is None:
                        exp = ("cancelled", at)
                        if t_r is None:
                            ctx.label("cancelled-in-command-phase")
            if exp is None:
                exp = ("raise", t0 + T_CMD)  # no response: the command times out
            try:
                kind, t_end, val = await task
            except vloop.Deadlock:
                ctx.fail("scan never ended (schedule %r)" % sched, "op-hangs")
            what = "scan (v%d, schedule %s%s)" % (version, ",".join(sched) or "silence", ", result before issue" if pre else "")
            if exp[0] == "ok":
                ctx.label("returned")
                if "res" in sched and sched.index("res") < sched.index("R_ok"):
                    ctx.label("results-before-response")
                if sched.index("C_ok") < sched.index("R_ok"):
                    ctx.label("completion-before-response")
                ctx.check(kind == "ok", "%s: accepted and completed, yet it ended with %s" % (what, kind), "scan-not-returned")
                if kind == "ok":
                    got = [E.plainify(list(r)) for r in val]
                    ctx.check(got == exp_results, "%s returned %r, results between issue and completion were %r" % (what, got, exp_results), "scan-results")
            elif exp[0] == "raise":
                ctx.label("refused" if r_ok is False else ("scan-failed" if c_ok is False else "no-response"))
                ctx.check(kind not in ("ok", "cancelled"), "%s: refused / failed / unanswered, yet it ended with %s" % (what, kind), "scan-completed-despite-failure")
            else:
                ctx.label("cancelled")
                ctx.check(kind == "cancelled", "%s: caller cancelled, ended with %s" % (what, kind), "cancel-outcome")
            ctx.check(abs(t_end - exp[1]) < EPS, "%s ended at +%.3f s, expected +%.3f s" % (what, t_end - t0, exp[1] - t0), "end-time")
            await asyncio.sleep(STEP * (depth + 2))
            env.leak_check(ctx, what)
            ctx.observe(version, sched, pre, kind, round(t_end - t0, 3))

        vloop.run(main)


class Joined(Harness):
    """Bring-up on a network that is already up / not formed: no waiting, no listener left."""

    name = "c17_bringup_states"
    must_reach = ("joined", "not-joined", "init-failed")
    functions = ("ControllerApplication._ensure_network_running",)

    def run(self, ctx, versions=(4, 8, 14)):
        version = versions[ctx.choice("version", len(versions))]
        case = ("joined", "not-joined", "init-failed")[ctx.choice("case", 3)]

        async def main(loop):
            import bellows.types as t
            import bellows.zigbee.application as A

            env = Env(loop, version)
            app = object.__new__(A.ControllerApplication)
            app._ezsp = env.ez
            task = loop.create_task(run_op(app._ensure_network_running()))
            await asyncio.sleep(0)
            name, seq = env.request()
            st = t.EmberNetworkStatus.JOINED_NETWORK if case == "joined" else t.EmberNetworkStatus.NO_NETWORK
            env.inject("networkState", [int(st)], seq)
            await asyncio.sleep(0)
            if case != "joined":
                name, seq = env.request()
                env.inject(name, [env.K["notjoined"] if case == "not-joined" else env.K["refuse"]], seq)
            kind, t_end, val = await task
            ctx.label(case)
            if case == "joined":
                ctx.check(kind == "ok" and val is False and len(env.gw.sent) == 1, "bring-up on a joined network: %s %r after %d commands" % (kind, val, len(env.gw.sent)), "joined-result")
            else:
                ctx.check(kind not in ("ok", "cancelled", "TimeoutError"), "bring-up with refused network init ended with %s" % kind, "init-refusal")
                ctx.check(abs(t_end) < EPS, "refusal reported at %.3f s" % t_end, "end-time")
            env.leak_check(ctx, "bring-up (%s)" % case)
            ctx.observe(version, case, kind)

        vloop.run(main)


class Overlap(Harness):
    """Two or three result-collecting commands overlap (a poll running while a scan runs, a further poll started after the
    first ended): each returns exactly its own results, each completes on its own completion frame, nothing remains."""

    name = "c17_overlap"
    must_reach = ("first-ends-first", "second-ends-first", "third-started")
    functions = ("EZSP._list_command", "EZSP.startScan", "EZSP.pollForData", "EZSP.add_callback", "EZSP.remove_callback", "EZSP.handle_callback")

    def run(self, ctx, versions=(4, 8)):
        version = versions[ctx.choice("version", len(versions))]
        first_ends_first = ctx.flag("first_ends_first")
        third = ctx.flag("third_command")

        async def main(loop):
            import bellows.types as t

            env = Env(loop, version)
            ez, K = env.ez, env.K

            async def start(kind):
                n0 = len(env.gw.sent)
                if kind == "scan":
                    names = list(env.ph.COMMANDS["startScan"][1])
                    tk = loop.create_task(run_op(ez.startScan(**dict(zip(names, [t.EzspNetworkScanType.ENERGY_SCAN, t.Channels.ALL_CHANNELS, 3])))))
                else:
                    names = list(env.ph.COMMANDS["pollForData"][1])
                    tk = loop.create_task(run_op(ez.pollForData(**dict(zip(names, [10, 1, 3])))))
                await asyncio.sleep(0)
                ctx.check(len(env.gw.sent) == n0 + 1, "%s was not issued" % kind, "not-issued")
                name, seq = env.request()
                env.inject(name, [K["ok"]], seq)
                await asyncio.sleep(0.01)
                return tk

            poll1 = await start("poll")
            scan = await start("scan")
            env.inject("pollHandler", [0x1001])
            env.inject("energyScanResultHandler", [11, -80])
            if first_ends_first:
                ctx.label("first-ends-first")
                env.inject("pollCompleteHandler", [K["ok"]])
                await asyncio.sleep(0.01)
                ctx.check(poll1.done(), "the first poll did not complete on its completion frame", "overlap-not-completed")
            else:
                ctx.label("second-ends-first")
                env.inject("scanCompleteHandler", [0, K["ok"]])
                await asyncio.sleep(0.01)
                ctx.check(scan.done(), "the scan did not complete on its completion frame", "overlap-not-completed")
            poll2 = None
            if third:
                ctx.label("third-started")
                poll2 = await start("poll" if first_ends_first else "scan")
            # results for whoever is still running
            env.inject("energyScanResultHandler", [12, -70])
            env.inject("pollHandler", [0x1002])
            await asyncio.sleep(0.01)
            env.inject("scanCompleteHandler", [0, K["ok"]])
            env.inject("pollCompleteHandler", [K["ok"]])
            try:
                await asyncio.sleep(1)
            except vloop.Deadlock:
                pass
            what = "overlapping list commands (v%d, %s ends first%s)" % (version, "poll" if first_ends_first else "scan", ", third command" if third else "")
            for nm, tk in (("first poll", poll1), ("scan", scan), ("third command", poll2)):
                if tk is None:
                    continue
                ctx.check(tk.done(), "%s never completed although its completion frame arrived (%s)" % (nm, what), "overlap-not-completed")
                if tk.done():
                    ctx.check(tk.result()[0] == "ok", "%s ended with %s (%s)" % (nm, tk.result()[0], what), "overlap-outcome")
            if poll1.done() and poll1.result()[0] == "ok":
                got = [E.plainify(list(r))[:1] for r in poll1.result()[2]]
                want = [[0x1001]] if first_ends_first else [[0x1001], [0x1002]]
                ctx.check(got == want, "first poll returned %r, its results were %r (%s)" % (got, want, what), "overlap-results")
            if scan.done() and scan.result()[0] == "ok":
                got = [E.plainify(list(r)) for r in scan.result()[2]]
                want = [[11, -80], [12, -70]] if first_ends_first else [[11, -80]]
                ctx.check(got == want, "scan returned %r, its results were %r (%s)" % (got, want, what), "overlap-results")
            for tk in (poll1, scan, poll2):
                if tk is not None and not tk.done():
                    tk.cancel()
            await asyncio.sleep(0.01)
            env.leak_check(ctx, what)
            ctx.observe(version, first_ends_first, third)

        vloop.run(main)


STATUS = StatusOp()
SCAN = Scan()
JOINED = Joined()
OVERLAP = Overlap()


def main(tier):
    c = Check("C17", tier)
    c.assumptions += [
        "gateway is a recorder; every NCP frame is built by refs/ezspref.py and injected through EZSP.frame_received as its own loop callback",
        "event frames carry a non-pending sequence number; the operation timeouts (10 s) and the command timeout (10 s) are reference constants",
        "scan results that arrive after the completion frame, and scans that are never completed, refused or cancelled, are outside the domain",
        "application object allocated without zigpy's constructor (only _ezsp is used by the bring-up)",
    ]
    if tier == "quick":
        c.run("checks.c17:STATUS", {"versions": [4, 8, 14], "depth": 4})
        c.run("checks.c17:SCAN", {"versions": [8, 14], "depth": 5})
        c.run("checks.c17:JOINED", {})
        c.run("checks.c17:OVERLAP", {"versions": [4, 8, 14]})
        c.out_of_bounds += ["schedules longer than 4 (status operations) / 5 (scan) events", "versions other than 4, 8 and 14 (thorough: 4, 7, 8, 13, 14)"]
    else:
        c.run("checks.c17:STATUS", {"versions": [4, 7, 8, 13, 14], "depth": 5})
        c.run("checks.c17:SCAN", {"versions": [4, 8, 14], "depth": 6})
        c.run("checks.c17:JOINED", {"versions": [4, 5, 6, 8, 13, 14]})
        c.run("checks.c17:OVERLAP", {"versions": [4, 5, 8, 13, 14]})
        c.out_of_bounds += ["schedules longer than 5 / 6 events"]
    return c.finish()


if __name__ == "__main__":
    sys.exit(main(sys.argv[1] if len(sys.argv) > 1 else "quick"))
