"""C12 - a unicast is reported delivered only on its own delivery confirmation.

Real ControllerApplication.send_packet / _handle_frame_sent (application built by zigpy's constructor through the
compatibility shim) on the real EZSP object and the real per-version protocol handler; the gateway is a recorder and the
NCP is scripted at EZSP-frame level.  Solver-decided: protocol version, the kind of each concurrent packet, the NCP's
status for every enqueue attempt, and what happens to the delivery confirmation."""
from __future__ import annotations

import asyncio
import sys

from refs import appshim
from refs import ezspref as E
from symx import vloop
from symx.run import Check, Harness

from checks.c06 import Gw, make_ezsp

EPS = 1e-6
RTT = 0.01
KINDS = ("unicast", "unicast-route", "unicast-exttimeout", "multicast", "broadcast", "ieee")
STATUSES = ("ok", "busy1", "busy2", "busy3", "refuse")
CONFIRMS = ("ok", "fail", "none", "dup", "other-tag-then-ok", "other-dest-then-ok", "before-response")
RETRY_DELAYS = (0.5, 1.0, 1.5)
APS_ACK_TIMEOUT = 120.0
SETUP = ("setSourceRoute", "getExtendedTimeout", "lookupNodeIdByEui64", "setExtendedTimeout", "replaceAddressTableEntry", "getConfigurationValue")
SENDS = ("sendUnicast", "sendMulticast", "sendBroadcast")


def status_value(version, name):
    import bellows.types as t

    if version >= 14:
        return int(getattr(t.sl_Status, {"ok": "OK", "busy1": "ZIGBEE_MAX_MESSAGE_LIMIT_REACHED", "busy2": "TRANSMIT_BUSY", "busy3": "ALLOCATION_FAILED",
                                         "refuse": "INVALID_STATE", "fail": "ZIGBEE_DELIVERY_FAILED"}[name]))
    return int(getattr(t.EmberStatus, {"ok": "SUCCESS", "busy1": "MAX_MESSAGE_LIMIT_REACHED", "busy2": "NETWORK_BUSY", "busy3": "NO_BUFFERS",
                                       "refuse": "INVALID_CALL", "fail": "DELIVERY_FAILED"}[name]))


class Send(Harness):
    name = "c12_send"
    must_reach = ("delivered", "refused", "busy-exhausted", "busy-then-accepted", "confirm-failed", "confirm-timeout", "foreign-confirmation", "duplicate-confirmation",
                  "confirmation-before-response", "multicast", "broadcast", "ieee-fallback", "source-route", "extended-timeout")
    functions = ("ControllerApplication.send_packet", "ControllerApplication._handle_frame_sent", "ControllerApplication.ezsp_callback_handler",
                 "EZSPv4.send_unicast", "EZSPv4.send_multicast", "EZSPv4.send_broadcast", "EZSPv4.set_source_route", "EZSPv4.set_extended_timeout",
                 "EZSPv14.send_unicast", "EZSPv14.send_multicast", "EZSPv14.send_broadcast", "ProtocolHandler.command")

    def must_reach_for(self, params):
        if params.get("n", 1) > 1:
            return ["delivered", "two-setups-concurrent"]
        return list(self.must_reach)

    def run(self, ctx, versions=(4, 8, 14), n=1, kinds=KINDS, statuses=STATUSES, confirms=CONFIRMS):
        import zigpy.device
        import zigpy.types as zt

        import bellows.types as t

        V = versions[ctx.choice("version", len(versions))]
        pk = [kinds[ctx.choice("kind%d" % i, len(kinds))] for i in range(n)]
        if n > 1:
            ctx.require(any(k in ("unicast-route", "unicast-exttimeout") for k in pk))

        async def main(loop):
            gw = Gw(loop)
            ez = make_ezsp(V, gw)
            ph = ez._protocol
            app = appshim.make_app()
            app._ezsp = ez
            app.controller_event.set()
            ez.add_callback(app.ezsp_callback_handler)
            ieee = t.EUI64.convert("00:11:22:33:44:55:66:77")
            app.devices[ieee] = zigpy.device.Device(app, ieee, 0x1234)
            ieee2 = t.EUI64.convert("00:11:22:33:44:55:66:88")
            app.devices[ieee2] = zigpy.device.Device(app, ieee2, 0x2345)
            tasks = {}
            log = []  # NCP request log: dict(t, name, pkt, vals)
            per = {i: {"attempts": [], "accepted": None, "tag": None, "dest": None, "conf": None, "conf_t": None} for i in range(n)}

            def frame(name, values, seq, callback=False):
                fid, _tx, rx = ph.COMMANDS[name]
                return bytes(E.header(V, seq, fid, callback=callback) + E.enc_schema(rx, values))

            def confirmation(dest, tag, status):
                rx = ph.COMMANDS["messageSentHandler"][2]
                aps = E.sample(t.EmberApsFrame, 1)
                byname = {"type": 0, "message_type": 0, "indexOrDestination": dest, "nwk": dest, "apsFrame": aps, "aps_frame": aps, "messageTag": tag,
                          "message_tag": tag, "status": status, "messageContents": b"", "message": b""}
                ez.frame_received(frame("messageSentHandler", [byname[k] for k in rx], 0x77, callback=True))

            def on_send(rec):
                ts, data, task = rec
                seq, _fc, fid, payload = E.parse_header(V, data)
                name, tx, rx = ph.COMMANDS_BY_ID[fid][0], ph.COMMANDS[ph.COMMANDS_BY_ID[fid][0]][1], ph.COMMANDS_BY_ID[fid][2]
                who = [i for i, tk in tasks.items() if tk is task]
                i = who[0] if who else None
                args, _rest = E.dec_schema(tx, payload)
                byname = dict(zip(tx, args))
                log.append({"t": ts, "name": name, "pkt": i})
                if name in SENDS:
                    p = per[i]
                    a = len(p["attempts"])
                    s = statuses[ctx.choice("st%d_%d" % (i, a), len(statuses))]
                    tag = [v for k, v in byname.items() if "tag" in k.lower()][0]
                    dest = byname.get("indexOrDestination", byname.get("nwk", byname.get("destination")))
                    p["attempts"].append({"t": ts, "status": s, "name": name})
                    p["tag"], p["dest"] = tag, dest
                    conf = None
                    if s == "ok":
                        p["accepted"] = ts + RTT
                        if name == "sendUnicast":
                            conf = confirms[ctx.choice("conf%d" % i, len(confirms))]
                            p["conf"] = conf
                    if conf == "before-response":
                        loop.call_later(RTT / 2, confirmation, dest, tag, status_value(V, "ok"))
                        p["conf_t"] = ts + RTT
                    loop.call_later(RTT, ez.frame_received, frame(name, [status_value(V, s), 0x55], seq))
                    if conf in ("ok", "dup"):
                        loop.call_later(RTT + 0.05, confirmation, dest, tag, status_value(V, "ok"))
                        p["conf_t"] = ts + RTT + 0.05
                        if conf == "dup":
                            loop.call_later(RTT + 0.06, confirmation, dest, tag, status_value(V, "ok"))
                    elif conf == "fail":
                        loop.call_later(RTT + 0.05, confirmation, dest, tag, status_value(V, "fail"))
                        p["conf_t"] = ts + RTT + 0.05
                    elif conf == "other-tag-then-ok":
                        # another request's tag; from v14 on tags are 16 bits wide: one that agrees in the low byte
                        foreign = (tag + 0x100) if V >= 14 else (tag + 1) % 256
                        loop.call_later(RTT + 0.03, confirmation, dest, foreign, status_value(V, "ok"))
                        loop.call_later(RTT + 0.05, confirmation, dest, tag, status_value(V, "ok"))
                        p["conf_t"] = ts + RTT + 0.05
                    elif conf == "other-dest-then-ok":
                        loop.call_later(RTT + 0.03, confirmation, (dest + 1) % 0xFFF0, tag, status_value(V, "ok"))
                        loop.call_later(RTT + 0.05, confirmation, dest, tag, status_value(V, "ok"))
                        p["conf_t"] = ts + RTT + 0.05
                else:
                    vals = {"setSourceRoute": [status_value(V, "ok")], "getExtendedTimeout": [0], "lookupNodeIdByEui64": [0x1234],
                            "setExtendedTimeout": [status_value(V, "ok")] if rx else [], "getConfigurationValue": [0, 8],
                            "replaceAddressTableEntry": None}.get(name)
                    if vals is None:
                        vals = E.sample_schema(rx, 0)
                    loop.call_later(RTT, ez.frame_received, frame(name, vals, seq))

            gw.on_send = on_send

            def packet(kind, i):
                dst = zt.AddrModeAddress(addr_mode=zt.AddrMode.NWK, address=0x1234 if i == 0 else 0x2345)
                kw = {}
                if kind == "unicast-route":
                    kw["source_route"] = [0x2222, 0x3333]
                elif kind == "unicast-exttimeout":
                    kw["extended_timeout"] = True
                elif kind == "multicast":
                    dst = zt.AddrModeAddress(addr_mode=zt.AddrMode.Group, address=0x4455)
                elif kind == "broadcast":
                    dst = zt.AddrModeAddress(addr_mode=zt.AddrMode.Broadcast, address=zt.BroadcastAddress.RX_ON_WHEN_IDLE)
                elif kind == "ieee":
                    dst = zt.AddrModeAddress(addr_mode=zt.AddrMode.IEEE, address=ieee if i == 0 else ieee2)
                return zt.ZigbeePacket(src=zt.AddrModeAddress(addr_mode=zt.AddrMode.NWK, address=0), src_ep=1, dst=dst, dst_ep=1, tsn=0x30 + i,
                                       profile_id=260, cluster_id=6, data=zt.SerializableBytes(bytes([1, 2, i])), **kw)

            outcomes = {}

            async def caller(i):
                try:
                    await app.send_packet(packet(pk[i], i))
                    outcomes[i] = ("ok", loop.time(), None)
                except Exception as e:
                    outcomes[i] = (type(e).__name__, loop.time(), e)

            for i in range(n):
                tasks[i] = loop.create_task(caller(i))
            try:
                await asyncio.gather(*tasks.values())
                await asyncio.sleep(1)
            except vloop.Deadlock:
                ctx.fail("send_packet never finished", "send-hangs")

            # ---------------- oracle
            for i in range(n):
                p, kind = per[i], pk[i]
                res, tend, exc = outcomes[i]
                what = "packet %d (%s, v%d, enqueue %s, confirmation %s)" % (i, kind, V, [a["status"] for a in p["attempts"]], p["conf"])
                sts = [a["status"] for a in p["attempts"]]
                ctx.check(1 <= len(sts) <= 3, "%s: %d enqueue attempts" % (what, len(sts)), "attempt-count")
                want_cmd = {"multicast": "sendMulticast", "broadcast": "sendBroadcast"}.get(kind, "sendUnicast")
                ctx.check(all(a["name"] == want_cmd for a in p["attempts"]), "%s used %r" % (what, [a["name"] for a in p["attempts"]]), "wrong-send-command")
                if kind in ("unicast", "unicast-route", "unicast-exttimeout", "ieee"):
                    ctx.check(p["dest"] == (0x1234 if i == 0 else 0x2345), "%s addressed to 0x%04X" % (what, p["dest"]), "wrong-destination")
                    if kind == "ieee":
                        ctx.label("ieee-fallback")
                for a, b, d in zip(p["attempts"], p["attempts"][1:], RETRY_DELAYS):
                    gap = b["t"] - (a["t"] + RTT)
                    ctx.check(gap >= d - EPS and (n > 1 or abs(gap - d) < 1e-3 + 4 * RTT), "%s: retry after %.3f s, spacing rule says %.1f s" % (what, gap, d), "retry-spacing")
                if sts[-1] == "refuse":
                    ctx.label("refused")
                    ctx.check(res == "DeliveryError", "%s: NCP refused the message, send_packet ended with %s" % (what, res), "refusal-outcome")
                elif sts[-1] != "ok":
                    ctx.label("busy-exhausted")
                    ctx.check(len(sts) == 3, "%s: gave up after %d busy answers" % (what, len(sts)), "busy-attempts")
                    ctx.check(res == "DeliveryError", "%s: NCP still busy after the retries, send_packet ended with %s" % (what, res), "busy-outcome:" + res)
                else:
                    if len(sts) > 1:
                        ctx.label("busy-then-accepted")
                    if want_cmd != "sendUnicast":
                        ctx.label(kind)
                        ctx.check(res == "ok" and abs(tend - p["accepted"]) < EPS, "%s: accepted at %.3f, ended %s at %.3f" % (what, p["accepted"], res, tend), "groupcast-outcome")
                    else:
                        c = p["conf"]
                        if c in ("ok", "dup", "other-tag-then-ok", "other-dest-then-ok", "before-response"):
                            ctx.label({"dup": "duplicate-confirmation", "other-tag-then-ok": "foreign-confirmation", "other-dest-then-ok": "foreign-confirmation",
                                       "before-response": "confirmation-before-response"}.get(c, "delivered"))
                            ctx.label("delivered")
                            ctx.check(res == "ok", "%s: accepted and confirmed, send_packet ended with %s" % (what, res), "confirmed-not-ok")
                            ctx.check(abs(tend - p["conf_t"]) < EPS, "%s: returned at %.3f, its own confirmation arrived at %.3f" % (what, tend, p["conf_t"]),
                                      "completed-by-foreign-confirmation" if tend < p["conf_t"] else "completion-time")
                        elif c == "fail":
                            ctx.label("confirm-failed")
                            ctx.check(res == "DeliveryError", "%s: confirmation reported failure, send_packet ended with %s" % (what, res), "failed-confirmation-outcome")
                        else:
                            ctx.label("confirm-timeout")
                            ctx.check(res == "TimeoutError", "%s: no confirmation, send_packet ended with %s" % (what, res), "no-confirmation-outcome")
                            ctx.check(abs(tend - (p["accepted"] + APS_ACK_TIMEOUT)) < EPS, "%s: timed out at +%.1f s" % (what, tend - p["accepted"]), "confirmation-timeout-instant")
                if kind == "unicast-route" and V < 9:
                    ctx.label("source-route")
                    ctx.check(any(e["pkt"] == i and e["name"] == "setSourceRoute" for e in log), "%s: no route set-up command" % what, "no-route-setup")
                if kind == "unicast-exttimeout":
                    ctx.label("extended-timeout")
                    ctx.check(any(e["pkt"] == i and e["name"] == "setExtendedTimeout" for e in log), "%s: no extended-timeout set-up" % what, "no-timeout-setup")
            ctx.check(len(app._pending) == 0, "bookkeeping left behind: %r" % (list(app._pending),), "pending-leak")
            # set-up + send of one request are never interleaved with another request's set-up and send:
            # between a request's latest set-up command and each of its following send attempts the NCP sees no
            # set-up / send command of another request
            last_setup = {}
            for j, e in enumerate(log):
                if e["pkt"] is None:
                    continue
                if e["name"] in SETUP:
                    last_setup[e["pkt"]] = j
                elif e["name"] in SENDS and e["pkt"] in last_setup:
                    between = [x for x in log[last_setup[e["pkt"]] + 1:j] if x["pkt"] is not None and x["pkt"] != e["pkt"] and (x["name"] in SETUP or x["name"] in SENDS)]
                    if between:
                        ctx.fail("command %s of packet %d reached the NCP between the set-up and the send of packet %d (NCP saw %r)"
                                 % (between[0]["name"], between[0]["pkt"], e["pkt"], [(x["pkt"], x["name"]) for x in log]), "setup-interleaved")
            if n > 1 and len({e["pkt"] for e in log if e["name"] in SETUP}) + (1 if any(e["name"] in SENDS for e in log) else 0) >= 2:
                ctx.label("two-setups-concurrent")
            ctx.observe(V, pk, [[a["status"] for a in per[i]["attempts"]] for i in range(n)], [per[i]["conf"] for i in range(n)], {i: o[0] for i, o in outcomes.items()},
                        [(e["pkt"], e["name"]) for e in log])

        vloop.run(main)


class Cancelled(Harness):
    """The caller of one send_packet is cancelled while its enqueue command is inside the link layer (frame written, not yet
    acknowledged); the next request must still get the answer to ITS OWN enqueue command."""

    name = "c12_cancelled"
    must_reach = ("second-refused", "second-accepted")
    functions = ("ControllerApplication.send_packet", "ProtocolHandler.command")

    def run(self, ctx, versions=(4, 8, 14)):
        import zigpy.device
        import zigpy.types as zt

        import bellows.types as t

        V = versions[ctx.choice("version", len(versions))]
        second = ("refuse", "ok")[ctx.choice("second_status", 2)]
        cancel_at = (0.004, 0.012)[ctx.choice("cancel_at", 2)]

        async def main(loop):
            gw = Gw(loop)
            gw.ack_latency = 0.008
            ez = make_ezsp(V, gw)
            ph = ez._protocol
            app = appshim.make_app()
            app._ezsp = ez
            app.controller_event.set()
            ez.add_callback(app.ezsp_callback_handler)
            sends = []

            def frame(name, values, seq, callback=False):
                fid, _tx, rx = ph.COMMANDS[name]
                return bytes(E.header(V, seq, fid, callback=callback) + E.enc_schema(rx, values))

            def on_send(rec):
                ts, data, task = rec
                seq, _fc, fid, payload = E.parse_header(V, data)
                name = ph.COMMANDS_BY_ID[fid][0]
                if name != "sendUnicast":
                    loop.call_later(RTT, ez.frame_received, frame(name, E.sample_schema(ph.COMMANDS[name][2], 0), seq))
                    return
                i = len(sends)
                tx = ph.COMMANDS[name][1]
                byname = dict(zip(tx, E.dec_schema(tx, payload)[0]))
                tag = [v for k, v in byname.items() if "tag" in k.lower()][0]
                dest = byname.get("indexOrDestination", byname.get("nwk"))
                sends.append((seq, tag, dest))
                st = "ok" if i == 0 else second
                # the NCP answers the first (abandoned) request late, after the second one has been written
                loop.call_later(0.05 if i == 0 else 0.02, ez.frame_received, frame(name, [status_value(V, st), 0x55], seq))
                if i == 1 and second == "ok":
                    rx = ph.COMMANDS["messageSentHandler"][2]
                    aps = E.sample(t.EmberApsFrame, 1)
                    bn = {"type": 0, "message_type": 0, "indexOrDestination": dest, "nwk": dest, "apsFrame": aps, "aps_frame": aps, "messageTag": tag,
                          "message_tag": tag, "status": status_value(V, "ok"), "messageContents": b"", "message": b""}
                    loop.call_later(0.1, ez.frame_received, frame("messageSentHandler", [bn[k] for k in rx], 0x77, callback=True))

            gw.on_send = on_send

            def packet(i):
                return zt.ZigbeePacket(src=zt.AddrModeAddress(addr_mode=zt.AddrMode.NWK, address=0), src_ep=1,
                                       dst=zt.AddrModeAddress(addr_mode=zt.AddrMode.NWK, address=0x1234 + i), dst_ep=1, tsn=0x30 + i,
                                       profile_id=260, cluster_id=6, data=zt.SerializableBytes(bytes([1, 2, i])))

            out = {}

            async def caller(i):
                try:
                    await app.send_packet(packet(i))
                    out[i] = "ok"
                except asyncio.CancelledError:
                    out[i] = "cancelled"
                except Exception as e:
                    out[i] = type(e).__name__

            t0 = loop.create_task(caller(0))
            loop.call_later(cancel_at, t0.cancel)
            await asyncio.sleep(0.02)
            t1 = loop.create_task(caller(1))
            await asyncio.gather(t0, t1, return_exceptions=True)
            ctx.check(len(sends) == 2, "%d enqueue commands reached the NCP" % len(sends), "enqueue-count")
            ctx.check(sends[0][0] != sends[1][0], "two different requests carried the same EZSP sequence number %d" % sends[0][0], "sequence-reused")
            if second == "refuse":
                ctx.label("second-refused")
                ctx.check(out.get(1) == "DeliveryError", "the NCP refused the second message, send_packet ended with %s (first caller cancelled at %.3f s)" % (out.get(1), cancel_at),
                          "refusal-outcome-after-cancel")
            else:
                ctx.label("second-accepted")
                ctx.check(out.get(1) == "ok", "second message accepted and confirmed, send_packet ended with %s" % out.get(1), "accepted-outcome-after-cancel")
            ctx.check(len(app._pending) == 0, "bookkeeping left behind: %r" % (list(app._pending),), "pending-leak")
            ctx.observe(V, second, cancel_at, out, sends)

        vloop.run(main)


SEND = Send()
CANCELLED = Cancelled()


def main(tier):
    c = Check("C12", tier)
    c.assumptions += [
        "application object built by zigpy's own constructor; the removed zigpy.util.Requests is re-implemented in refs/appshim.py (dict of pending requests, context manager removing the entry)",
        "gateway is a recorder; the NCP is scripted at EZSP-frame level (10 ms response time) with frames from refs/ezspref.py; confirmations are messageSentHandler frames assembled by field name for the pre-v14 and v14 layouts",
        "busy statuses: MAX_MESSAGE_LIMIT_REACHED, NETWORK_BUSY, NO_BUFFERS (pre-v14) / ZIGBEE_MAX_MESSAGE_LIMIT_REACHED, TRANSMIT_BUSY, ALLOCATION_FAILED (v14); spacing 0.5/1.0/1.5 s and the 120 s confirmation timeout are reference constants",
    ]
    if tier == "quick":
        c.run("checks.c12:SEND", {"versions": [4, 5, 8, 9, 13, 14], "n": 1})
        c.run("checks.c12:SEND", {"versions": [4, 8, 14], "n": 2, "statuses": ["ok", "busy1", "refuse"], "confirms": ["ok", "none", "other-tag-then-ok"]})
        c.run("checks.c12:CANCELLED", {})
        c.out_of_bounds += ["more than two concurrent packets", "versions other than 4, 5, 8, 9, 13, 14 (thorough: 4..14)", "reduced status / confirmation alphabets in the two-packet runs"]
    else:
        c.run("checks.c12:SEND", {"versions": list(range(4, 15)), "n": 1})
        c.run("checks.c12:SEND", {"versions": [4, 8, 9, 14], "n": 2, "statuses": ["ok", "busy1", "refuse"], "confirms": ["ok", "fail", "none", "other-tag-then-ok"]})
        c.run("checks.c12:SEND", {"versions": [8], "n": 3, "kinds": ["unicast", "unicast-route", "unicast-exttimeout"], "statuses": ["ok", "busy2"], "confirms": ["ok"]})
        c.run("checks.c12:CANCELLED", {"versions": list(range(4, 15))})
        c.out_of_bounds += ["more than three concurrent packets"]
    return c.finish()


if __name__ == "__main__":
    sys.exit(main(sys.argv[1] if len(sys.argv) > 1 else "quick"))
