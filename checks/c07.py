"""C07 - EZSP frame headers and command schemas form a consistent codec in every version.

* Unique: per version, two solver-chosen table indices i < j never carry the same frame ID (one unsat query per version).
* Header: the three header writers/readers are compiled from source with solver-aware bytes, so the sequence number is a
  symbolic byte through _ezsp_frame_tx / _ezsp_frame_rx; every other version is tied to its family's writer.
* Args: every command of every version, every positional/keyword split, keyword order declared or reversed, against the
  independent header + structural little-endian encoder.
* Rx: every response / callback schema: reference-encoded sample tuples (and one-byte variations that stay canonical)
  through the real receive path must come back as exactly those values with nothing left over."""
from __future__ import annotations

import importlib
import sys

from refs import ezspref as E
from symx.core import SymInt, site
from symx.run import Check, Harness
from symx.shadow import load_shadowed

VERSIONS = list(range(4, 15))


def handler_cls(version):
    return getattr(importlib.import_module("bellows.ezsp.v%d" % version), "EZSPv%d" % version)


def mk_handler(version, cb=None):
    cls = handler_cls(version)
    return cls(cb or (lambda *a: None), None)


class Unique(Harness):
    name = "c07_unique"
    must_reach = ("table",)
    functions = ("bellows.ezsp.vN.commands.COMMANDS",)

    def run(self, ctx, versions=VERSIONS):
        version = versions[ctx.choice("version", len(versions))]
        table = handler_cls(version).COMMANDS
        names = list(table)
        ids = [int(table[n][0]) for n in names]
        i = ctx.int("i", 0, len(ids) - 1)
        j = ctx.int("j", 0, len(ids) - 1)
        ctx.require(i < j)

        if ctx.sym:
            # the ID column as a solver array: A[k] = ids[k] for every k, then one query over symbolic i < j
            import z3

            from symx import core

            A = z3.Array("ids_v%d" % version, z3.BitVecSort(core.W), z3.BitVecSort(core.W))
            for k, v in enumerate(ids):
                ctx.eng.solver.add(z3.Select(A, z3.BitVecVal(k, core.W)) == z3.BitVecVal(v, core.W))

            def sel(ix):
                return SymInt(z3.Select(A, ix.t), 0, 0xFFFF)
        else:
            def sel(ix):
                return ids[ix]

        ctx.label("table")
        ctx.check(sel(i) != sel(j), "protocol version %d: two commands share one frame ID" % version, "duplicate-id:v%d" % version)
        # the lookup table the receive path uses must invert the command table
        ph = mk_handler(version)
        ctx.check(len(ph.COMMANDS_BY_ID) == len(names), "protocol version %d: COMMANDS_BY_ID has %d entries for %d commands" % (version, len(ph.COMMANDS_BY_ID), len(names)),
                  "by-id-size:v%d" % version)
        ctx.observe(version, len(names))


class Header(Harness):
    name = "c07_header"
    must_reach = ("legacy3", "legacy5", "v8")
    functions = ("EZSPv4._ezsp_frame_tx", "EZSPv4._ezsp_frame_rx", "EZSPv5._ezsp_frame_tx", "EZSPv5._ezsp_frame_rx",
                 "EZSPv8._ezsp_frame_tx", "EZSPv8._ezsp_frame_rx")

    def must_reach_for(self, params):
        return sorted({E.family(v) for v in params.get("versions", VERSIONS)})

    def run(self, ctx, versions=VERSIONS):
        version = versions[ctx.choice("version", len(versions))]
        fam = E.family(version)
        base = {"legacy3": 4, "legacy5": 5, "v8": 8}[fam]
        real = handler_cls(version)
        real_base = handler_cls(base)
        # the version must use its family's writer/reader (that is what is executed symbolically below)
        ctx.check(real._ezsp_frame_tx is real_base._ezsp_frame_tx and real._ezsp_frame_rx is real_base._ezsp_frame_rx,
                  "protocol version %d does not use the header code of EZSPv%d" % (version, base), "header-family:v%d" % version)
        if ctx.sym:
            mod = load_shadowed("bellows/ezsp/v%d/__init__.py" % base, "symx_shadow_ezsp_v%d" % base, package="bellows.ezsp.v%d" % base)
            cls = getattr(mod, "EZSPv%d" % base)
        else:
            cls = real_base
        ph = object.__new__(cls)
        ph.COMMANDS = real.COMMANDS
        names = list(real.COMMANDS)
        name = names[ctx.choice("cmd", len(names))] if len(versions) == 1 else names[(version * 37) % len(names)]
        fid = int(real.COMMANDS[name][0])
        seq = ctx.byte("seq")
        ph._seq = seq
        hdr = ph._ezsp_frame_tx(name)
        want = E.header(version, seq, fid, response=False)
        ctx.label(fam)
        ctx.check(len(hdr) == len(want), "v%d header of %s is %d bytes, layout has %d" % (version, name, len(hdr), len(want)), "header-length")
        for k, (a, b) in enumerate(zip(hdr, want)):
            ctx.check(a == b, "v%d header byte %d of %s differs from the version's layout" % (version, k, name), "header-byte:%s:%d" % (fam, k))
        # reader: header || tail -> (seq, id, tail)
        tail = [ctx.byte("t0"), ctx.byte("t1")]
        rx = ctx.mkbytes(E.header(version, seq, fid, response=True) + tail)
        s2, f2, rest = ph._ezsp_frame_rx(rx)
        ctx.check(s2 == seq, "v%d reader returns a different sequence number" % version, "reader-seq:" + fam)
        ctx.check(f2 == fid, "v%d reader returns a different frame id" % version, "reader-id:" + fam)
        ctx.check(len(rest) == 2, "v%d reader returns a tail of %d bytes" % (version, len(rest)), "reader-tail:" + fam)
        ctx.check((rest[0] == tail[0]) & (rest[1] == tail[1]) if ctx.sym else bytes(rest) == bytes(tail), "v%d reader changes the payload" % version, "reader-tail:" + fam)
        ctx.observe(version, name, list(hdr))


def _is_ambiguous(schema):
    """Two open-ended lists in a row cannot be split back (tx only: addEndpoint)."""
    kinds = [E._kind(t) for t in schema.values()] if isinstance(schema, dict) else []
    return kinds.count("list") > 1


class Args(Harness):
    name = "c07_args"
    must_reach = ("positional", "keyword", "mixed", "reversed-kw", "plain-values", "foreign-typed-values")
    functions = ("ProtocolHandler._ezsp_frame", "bellows.types.serialize_dict")

    def run(self, ctx, versions=VERSIONS, salts=2, every=1, offset=0):
        version = versions[ctx.choice("version", len(versions))]
        ph = mk_handler(version)
        names = list(ph.COMMANDS)[offset::every]
        name = names[ctx.choice("cmd", len(names))]
        fid, tx, _rx = ph.COMMANDS[name]
        seq = (0x00, 0x7F, 0xFF)[ctx.choice("seq", 3)]
        ph._seq = seq
        if not isinstance(tx, dict):
            ctx.label("struct-schema")
            got = ph._ezsp_frame(name)
            ctx.check(list(got) == E.header(version, seq, fid, response=False), "%s (v%d): frame for an argument-less schema is %s" % (name, version, bytes(got).hex()), "args-empty")
            ctx.observe(version, name, bytes(got))
            return
        salt = 1 + ctx.choice("salt", salts)
        plain = E.sample_schema(tx, salt)
        typed = [E.build(ty, v) for ty, v in zip(tx.values(), plain)]
        form = ("exact", "plain", "foreign")[ctx.choice("form", 3)]
        if form == "plain":
            # plain Python values (int / bytes / list) for scalar fields: the schema type must coerce them
            typed = [v if E._kind(ty) in ("int", "lvbytes", "bytes") else tv for ty, v, tv in zip(tx.values(), plain, typed)]
            ctx.label("plain-values")
        elif form == "foreign":
            # values of a *different* wire type that denote the same value: a length-prefixed bytes field given an instance
            # of the 4-byte-prefix variant, an integer field given a wider / narrower integer type's instance
            import bellows.types as t

            def other(ty, v, tv):
                k = E._kind(ty)
                if k == "lvbytes":
                    return (t.LVBytes32 if ty._prefix_length == 1 else t.LVBytes)(v)
                if k == "int" and not hasattr(ty, "__members__"):
                    return (t.uint32_t if ty._size != 4 else t.uint64_t)(v) if v >= 0 else tv
                return tv

            typed = [other(ty, v, tv) for ty, v, tv in zip(tx.values(), plain, typed)]
            ctx.label("foreign-typed-values")
        want = E.header(version, seq, fid, response=False) + E.enc_schema(tx, plain)
        keys = list(tx)
        k = ctx.choice("split", len(keys) + 1)
        rev = len(keys) - k >= 2 and ctx.flag("reversed")
        kw_items = list(zip(keys[k:], typed[k:]))
        if rev:
            kw_items.reverse()
            ctx.label("reversed-kw")
        ctx.label("positional" if k == len(keys) else ("keyword" if k == 0 else "mixed"))
        try:
            got = ph._ezsp_frame(name, *typed[:k], **dict(kw_items))
        except Exception as e:
            ctx.fail("%s (v%d) with %d positional arguments raised %s: %s" % (name, version, k, type(e).__name__, e), "args-raise")
        ctx.check(list(got) == want,
                  "%s (v%d), %d positional + %d keyword%s, %s values: frame %s, declared-order encoding %s" % (name, version, k, len(keys) - k, " (reversed)" if rev else "", form, bytes(got).hex(), bytes(want).hex()),
                  "args-bytes")
        ctx.observe(version, name, k, rev, bytes(got))


class Rx(Harness):
    name = "c07_rx"
    must_reach = ("roundtrip", "variant-canonical", "variant-other")
    functions = ("ProtocolHandler.__call__", "bellows.types.deserialize_dict")

    def must_reach_for(self, params):
        return list(self.must_reach) if params.get("variants", True) else ["roundtrip"]

    def run(self, ctx, versions=VERSIONS, salts=2, variants=True, every=1, offset=0):
        import bellows.types as t

        version = versions[ctx.choice("version", len(versions))]
        got_cb = []
        ph = mk_handler(version, lambda name, args: got_cb.append((name, args)))
        names = list(ph.COMMANDS)[offset::every]
        name = names[ctx.choice("cmd", len(names))]
        fid, _tx, rx = ph.COMMANDS[name]
        salt = 1 + ctx.choice("salt", salts)
        plain = E.sample_schema(rx, salt)
        payload = E.enc_schema(rx, plain)
        mode = "roundtrip"
        if variants and payload:
            vpos = ctx.choice("vpos", len(payload) + 1)
            if vpos < len(payload):
                cands = sorted({0x00, 0x01, 0x7F, 0x80, 0xFF, payload[vpos] ^ 0x10})
                payload = payload[:vpos] + [cands[ctx.choice("vval", len(cands))]] + payload[vpos + 1:]
                try:
                    vals, rest = E.dec_schema(rx, payload)
                    canonical = not rest and E.enc_schema(rx, vals if not isinstance(vals, dict) else vals) == payload
                except (E.CodecError, IndexError):
                    canonical = False
                if not canonical:
                    ctx.label("variant-other")
                    ctx.observe(version, name, "not an encoding")
                    return
                plain = vals
                mode = "variant-canonical"
        ctx.label(mode)
        seq = 0x42
        data = bytes(E.header(version, seq, fid) + payload)
        try:
            ph(data)
        except Exception as e:
            ctx.fail("receive path raised %s on the encoding of %s %r (v%d)" % (type(e).__name__, name, plain, version), "rx-raise")
        ctx.check(len(got_cb) == 1 and got_cb[0][0] == name, "%s (v%d) frame was delivered as %r" % (name, version, [g[0] for g in got_cb]), "rx-name")
        res = got_cb[0][1]
        got = E.plainify(list(res)) if isinstance(rx, dict) else E.plainify(res)
        want = plain if isinstance(rx, dict) or isinstance(rx, (tuple, list)) else plain
        if isinstance(rx, (tuple, list)):
            got = list(got) if got else []
        ctx.check(got == want, "%s (v%d): values %r went in, %r came out" % (name, version, want, got), "rx-values")
        # nothing left over (decoder entry used by the receive path)
        if isinstance(rx, dict):
            _res, rest = t.deserialize_dict(bytes(payload), rx)
            ctx.check(len(rest) == 0, "%s (v%d): %d bytes left over after decoding its own encoding" % (name, version, len(rest)), "rx-leftover")
        ctx.observe(version, name, mode, bytes(data))


UNIQUE = Unique()
HEADER = Header()
ARGS = Args()
RX = Rx()


def main(tier):
    c = Check("C07", tier)
    c.assumptions += [
        "expected bytes come from refs/ezspref.py (header layouts from UG100; structural little-endian encoder reading widths / lengths / field order from the schema objects)",
        "argument and response values range over per-type sample tuples (2-3 salts) and, on the receive side, over one-byte variations that remain canonical encodings; zigpy's int-subclass types force concrete values",
        "tx schemas with two consecutive open-ended lists (addEndpoint) are only encoded, never decoded",
    ]
    if tier == "quick":
        c.run("checks.c07:UNIQUE", {})
        c.run("checks.c07:HEADER", {})
        c.run("checks.c07:ARGS", {"salts": 1})
        c.run("checks.c07:RX", {"salts": 1, "variants": False})
        c.run("checks.c07:RX", {"versions": [4, 8, 14], "salts": 1, "variants": True, "every": 4})
        c.out_of_bounds += ["argument / response values other than the per-type samples", "byte variations on the receive side for 3 versions and every 4th command only (thorough: all)"]
    else:
        c.run("checks.c07:UNIQUE", {})
        c.run("checks.c07:HEADER", {})
        for v in (4, 5, 8):
            c.run("checks.c07:HEADER", {"versions": [v]})
        c.run("checks.c07:ARGS", {"salts": 3})
        c.run("checks.c07:RX", {"salts": 2, "variants": True})
        c.out_of_bounds += ["argument / response values other than the per-type samples and one-byte variations with 6 candidate values per position"]
    return c.finish()


if __name__ == "__main__":
    sys.exit(main(sys.argv[1] if len(sys.argv) > 1 else "quick"))
