"""C14 - network settings survive a write / read round trip through the NCP.

Real ControllerApplication.write_network_info / load_network_info (application built by zigpy's constructor), real EZSP,
real per-version protocol handler and accessors, against the stateful frame-level NCP model refs/ncpstate.py.
Solver-decided: protocol version, NV3 EUI64 token present or not, manufacturing token burnt or not, the backup's node
IEEE (same / different / unknown) and the burn permission, trust-centre address known or unknown, hashed TCLK supplied
or not, number of link keys and children, and a selector over boundary values for every numeric setting."""
from __future__ import annotations

import asyncio
import sys

from refs import appshim
from refs.ncpstate import HASHED, NcpState, Adapter
from symx import vloop
from symx.run import Check, Harness

from checks.c06 import Gw, make_ezsp

NUMERIC = [
    # (pan_id, ext_pan, channel, mask channels, update id, nwk key seq, nwk fc, tclk fc)
    (0x1A2B, "11:22:33:44:55:66:77:88", 15, (11, 15, 20, 25), 0, 0, 0, 0),
    (0xFFFE, "ff:ee:dd:cc:bb:aa:99:88", 26, (26,), 255, 255, 0xFFFFFFFF, 0x10000),
    (0x0000, "00:00:00:00:00:00:00:01", 11, tuple(range(11, 27)), 1, 7, 0x01020304, 0xFFFFFFFF),
    (0x5A5A, "0a:0b:0c:0d:0e:0f:10:11", 15, (11, 20, 25), 9, 128, 1, 1),  # operating channel not in the mask
]


class GwR(Gw):
    on_reset = None

    async def reset(self):
        if self.on_reset is not None:
            self.on_reset()  # the RST frame reboots the NCP
        return True


class RoundTrip(Harness):
    name = "c14_roundtrip"
    must_reach = ("eui64-rewritten-nv3", "eui64-burned", "eui64-kept", "tc-unknown", "link-keys", "children-stored", "legacy-v4", "v13-family", "v14", "mask-without-channel")
    functions = ("ControllerApplication.write_network_info", "ControllerApplication.reset_network_info", "ControllerApplication.load_network_info",
                 "ControllerApplication._ensure_network_running", "bellows.zigbee.util.zha_security", "bellows.zigbee.util.ezsp_key_to_zigpy_key",
                 "EZSP.write_custom_eui64", "EZSP.reset_custom_eui64", "EZSP.can_rewrite_custom_eui64", "EZSP.can_burn_userdata_custom_eui64", "EZSP.formNetwork", "EZSP.leaveNetwork",
                 "EZSPv4.get_network_key", "EZSPv4.read_link_keys", "EZSPv4.write_link_keys", "EZSPv4.read_child_data", "EZSPv5.write_nwk_frame_counter", "EZSPv7.read_child_data",
                 "EZSPv9.write_child_data", "EZSPv10.write_child_data", "EZSPv13.read_link_keys", "EZSPv13.get_network_key", "EZSPv13.write_link_keys", "EZSPv14.get_network_key")

    def must_reach_for(self, params):
        vs = params.get("versions", list(range(4, 15)))
        mr = ["eui64-kept", "tc-unknown", "link-keys", "mask-without-channel"] + (["key-refused"] if params.get("max_keys", 2) >= 2 else [])
        if 4 in vs:
            mr.append("legacy-v4")
        if any(v >= 9 for v in vs):
            mr += ["eui64-rewritten-nv3", "children-stored", "second-restore"]
        if any(v in (12, 13) for v in vs):
            mr.append("v13-family")
        if 14 in vs:
            mr.append("v14")
        mr.append("eui64-burned")
        return mr

    def run(self, ctx, versions=tuple(range(4, 15)), max_keys=2, max_children=2):
        import zigpy.state
        import zigpy.types as zt

        import bellows.types as t
        import bellows.zigbee.application as A

        V = versions[ctx.choice("version", len(versions))]
        nv3 = V >= 9 and ctx.flag("nv3")
        ieee_mode = ("same", "different", "unknown")[ctx.choice("node_ieee", 3)]
        burned = False
        allow_burn = False
        if ieee_mode == "different" and not nv3:
            allow_burn = ctx.flag("allow_burn")
            burned = allow_burn and ctx.flag("already_burned")
        tc_known = ctx.flag("tc_known")
        hashed_given = ctx.flag("hashed_given")
        nkeys = ctx.choice("nkeys", max_keys + 1)
        nchildren = ctx.choice("nchildren", max_children + 1)
        preset = nv3 and ieee_mode == "different" and ctx.flag("nv3_already_holds_backup_ieee")  # second restore of the same backup
        refuse_first = nkeys >= 2 and ctx.flag("ncp_refuses_first_key")
        num = NUMERIC[ctx.choice("numeric", len(NUMERIC))]
        pan, epan, chan, mask, upd, kseq, nfc, tfc = num

        async def main(loop):
            gw = GwR(loop)
            ez = make_ezsp(V, gw)
            st = NcpState(V, nv3=nv3, mfg_burned=burned)
            if preset:
                st.nv3_eui = [0x11, 0x00, 0xFF, 0xEE, 0xDD, 0xCC, 0xBB, 0xAA]  # == other (aa:bb:cc:dd:ee:ff:00:11), little endian
                st.boot()
            ad = Adapter(loop, ez, st)
            gw.on_send = ad.on_send
            gw.on_reset = st.boot
            app = appshim.make_app()
            app._ezsp = ez
            old_urandom = A.os.urandom
            A.os.urandom = lambda n: bytes((0xC0 + i) & 0xFF for i in range(n))
            try:
                cur = zt.EUI64(st.factory_eui if preset else st.eui())  # the factory address is what the NCP falls back to once the token is wiped
                other = zt.EUI64.convert("aa:bb:cc:dd:ee:ff:00:11")
                node_ieee = {"same": cur, "different": other, "unknown": zt.EUI64.UNKNOWN}[ieee_mode]
                tc_partner = zt.EUI64.convert("12:34:56:78:9a:bc:de:f0") if tc_known else zt.EUI64.UNKNOWN
                nwk_key = zt.KeyData(bytes(range(0x10, 0x20)))
                hashed = bytes(range(0x70, 0x80))
                tc_key = bytes(range(0x50, 0x60)) if V == 4 else b"ZigBeeAlliance09"  # only v4 stores the link key itself
                keys = [zigpy.state.Key(key=zt.KeyData(bytes([0x30 + j] * 16)), partner_ieee=zt.EUI64.convert("00:0d:6f:00:00:00:00:0%d" % (j + 1))) for j in range(nkeys)]
                if refuse_first:
                    st.refuse_partners = [list(keys[0].partner_ieee.serialize())]
                    ctx.label("key-refused")
                if preset:
                    ctx.label("second-restore")
                kids = [zt.EUI64.convert("00:0d:6f:ff:00:00:00:0%d" % (j + 1)) for j in range(nchildren)]
                ss = {}
                if hashed_given:
                    ss["hashed_tclk"] = hashed.hex()
                if allow_burn:
                    ss["i_understand_i_can_update_eui64_only_once_and_i_still_want_to_do_it"] = True
                ni = zigpy.state.NetworkInfo(
                    extended_pan_id=zt.ExtendedPanId.convert(epan), pan_id=zt.PanId(pan), nwk_update_id=upd, nwk_manager_id=zt.NWK(0x0000), channel=chan,
                    channel_mask=zt.Channels.from_channel_list(mask), security_level=5,
                    network_key=zigpy.state.Key(key=nwk_key, seq=kseq, tx_counter=nfc),
                    tc_link_key=zigpy.state.Key(key=zt.KeyData(tc_key), partner_ieee=tc_partner, tx_counter=tfc),
                    key_table=keys, children=kids, nwk_addresses={k: zt.NWK(0x4000 + j) for j, k in enumerate(kids)},
                    stack_specific={"ezsp": ss} if ss else {}, metadata={})
                node = zigpy.state.NodeInfo(nwk=zt.NWK(0x0000), ieee=node_ieee, logical_type=zt.uint8_t(0))
                what = "v%d nv3=%s node-ieee=%s burn=%s/%s tc=%s hashed=%s keys=%d children=%d settings#%d" % (
                    V, nv3, ieee_mode, allow_burn, burned, "known" if tc_known else "unknown", hashed_given, nkeys, nchildren, NUMERIC.index(num))
                try:
                    await asyncio.wait_for(app.write_network_info(network_info=ni, node_info=node), 600)
                except vloop.Deadlock:
                    ctx.fail("write_network_info never finished (%s; NCP model errors %r)" % (what, ad.errors[:2]), "write-hangs")
                ctx.check(not ad.errors, "NCP could not accept a request: %s (%s)" % (ad.errors[:1], what), "bad-request")
                rewritten = ieee_mode == "different" and (nv3 or (allow_burn and not burned))
                exp_ieee = other if rewritten else cur
                if rewritten:
                    ctx.label("eui64-rewritten-nv3" if nv3 else "eui64-burned")
                else:
                    ctx.label("eui64-kept")
                ctx.check(zt.EUI64(st.eui()) == exp_ieee, "NCP runs with EUI64 %s, expected %s (%s)" % (zt.EUI64(st.eui()), exp_ieee, what), "eui64")
                ctx.check(st.stored_eui() == st.eui(), "the NCP's tokens name %s but it still runs as %s: it was not restarted after the address was written (%s)"
                          % (zt.EUI64(st.stored_eui()), zt.EUI64(st.eui()), what), "eui64-not-active")
                # ---- the security state the NCP received
                ctx.check(len(st.sec_log) == 1, "security state sent %d times" % len(st.sec_log), "security-state-count")
                sec = st.sec_log[0]
                # the trust-centre address counts as supplied when the backup names one, or when the (unwritten) node address had to be substituted
                if rewritten or ieee_mode in ("same", "unknown"):
                    supplied = tc_known or not rewritten
                    exp_partner = tc_partner if (tc_known and rewritten) else (cur if not rewritten else None)
                else:
                    supplied, exp_partner = True, cur
                if not supplied:
                    ctx.label("tc-unknown")
                ctx.check(bool(sec["bitmask"] & 0x0040) == supplied, "security state says trust-centre address %s, the supplied fields say %s (%s)"
                          % ("present" if sec["bitmask"] & 0x0040 else "absent", "present" if supplied else "absent", what), "tc-eui64-flag")
                if supplied and exp_partner is not None:
                    ctx.check(zt.EUI64(sec["preconfiguredTrustCenterEui64"]) == exp_partner, "trust-centre address %s sent, expected %s (%s)"
                              % (zt.EUI64(sec["preconfiguredTrustCenterEui64"]), exp_partner, what), "tc-eui64-value")
                ctx.check(bytes(sec["networkKey"]) == bytes(nwk_key.serialize()) and sec["networkKeySequenceNumber"] == kseq, "network key / sequence number sent to the NCP differ (%s)" % what, "nwk-key-sent")
                ctx.check(sec["bitmask"] & 0x0300 == 0x0300, "presence flags for the two keys missing (%s)" % what, "key-flags")
                exp_hashed = hashed if hashed_given else bytes((0xC0 + i) & 0xFF for i in range(16))
                if V > 4:
                    ctx.check(sec["bitmask"] & HASHED == HASHED and bytes(sec["preconfiguredKey"]) == exp_hashed, "hashed trust-centre link key not sent as given (%s)" % what, "hashed-tclk-sent")
                else:
                    ctx.check(sec["bitmask"] & 0x0080 == 0 and bytes(sec["preconfiguredKey"]) == tc_key, "trust-centre link key not sent as given (%s)" % what, "tclk-sent")
                # ---- read back
                try:
                    await asyncio.wait_for(app.load_network_info(load_devices=True), 600)
                except vloop.Deadlock:
                    ctx.fail("load_network_info never finished (%s)" % what, "read-hangs")
                ctx.check(not ad.errors, "NCP could not accept a request: %s (%s)" % (ad.errors[:1], what), "bad-request")
                got = app.state.network_info
                ctx.label("legacy-v4" if V == 4 else ("v14" if V == 14 else ("v13-family" if V >= 12 else "other")))
                for nm, g, w in (("PAN ID", int(got.pan_id), pan), ("extended PAN ID", str(got.extended_pan_id), epan), ("channel", int(got.channel), chan),
                                 ("channel mask", int(got.channel_mask), int(zt.Channels.from_channel_list(mask))), ("update ID", int(got.nwk_update_id), upd),
                                 ("network key", bytes(got.network_key.key.serialize()), bytes(nwk_key.serialize())), ("network key sequence", int(got.network_key.seq), kseq),
                                 ("trust-centre link key", bytes(got.tc_link_key.key.serialize()), tc_key)):
                    ctx.check(g == w, "%s read back as %r, written %r (%s)" % (nm, g, w, what), "readback:" + nm)
                if chan not in mask:
                    ctx.label("mask-without-channel")
                if V == 4:
                    ctx.check("hashed_tclk" not in got.stack_specific.get("ezsp", {}), "v4 stores the link key itself, yet a hashed form %r was read back (%s)" % (got.stack_specific, what), "readback:spurious-hashed-tclk")
                if V > 4:
                    ctx.check(got.stack_specific.get("ezsp", {}).get("hashed_tclk") == exp_hashed.hex(), "hashed link key read back as %r (%s)" % (got.stack_specific, what), "readback:hashed-tclk")
                    ctx.check(int(got.network_key.tx_counter) == nfc, "network-key frame counter read back as %r, written %r (%s)" % (got.network_key.tx_counter, nfc, what), "readback:frame-counter")
                ctx.check(app.state.node_info.ieee == exp_ieee, "node IEEE read back as %s (%s)" % (app.state.node_info.ieee, what), "readback:ieee")
                gk = sorted((bytes(k.key.serialize()), str(k.partner_ieee)) for k in got.key_table)
                wk = sorted((bytes(k.key.serialize()), str(k.partner_ieee)) for k in keys[(1 if refuse_first else 0):])  # what the NCP accepted
                if nkeys:
                    ctx.label("link-keys")
                ctx.check(gk == wk, "link-key table read back as %r, written %r (%s)" % (gk, wk, what), "readback:link-keys")
                if V >= 9:
                    if nchildren:
                        ctx.label("children-stored")
                    ctx.check(sorted(map(str, got.children)) == sorted(map(str, kids)), "children read back as %r, written %r (%s)" % (got.children, kids, what), "readback:children")
                    for k in kids:
                        ctx.check(int(got.nwk_addresses.get(k, -1)) == int(ni.nwk_addresses[k]), "child %s address read back as %r (%s)" % (k, got.nwk_addresses.get(k), what), "readback:child-nwk")
                ctx.observe(V, what, hex(sec["bitmask"]), len(got.key_table), len(got.children))
            finally:
                A.os.urandom = old_urandom

        vloop.run(main)


ROUNDTRIP = RoundTrip()


def main(tier):
    c = Check("C14", tier)
    c.assumptions += [
        "the NCP applies EUI64 tokens at boot (an RST through the gateway), keeps its outgoing frame counters across leave / reboot unless they are written or the tokens are factory-reset, and starts with non-zero stale counters",
        "NCP modelled by refs/ncpstate.py: persists EUI64 tokens, network parameters, initial security state, frame counters, link-key / child / address tables and configuration; requests decoded and responses encoded by field name against each version's schema tables",
        "application built by zigpy's constructor with refs/appshim.py; the gateway is a recorder whose reset() succeeds; os.urandom replaced by a fixed pattern (default hashed TCLK)",
        "a link key the NCP refuses (its partner address is on the model's refusal list) is not expected back; every accepted one is",
        "where the protocol version cannot store them (frame counter on v4, children before v9) no read-back is demanded",
        "the trust-centre address counts as supplied when the backup names one or when bellows must substitute the unwritten node address",
    ]
    if tier == "quick":
        c.run("checks.c14:ROUNDTRIP", {"versions": [4, 8, 9, 13, 14], "max_keys": 2, "max_children": 1})
        c.out_of_bounds += ["versions other than 4, 8, 9, 13, 14 (thorough: 4..14)", "more than 2 link keys / 1 child", "numeric settings outside the four boundary tuples"]
    else:
        c.run("checks.c14:ROUNDTRIP", {"versions": list(range(4, 15)), "max_keys": 2, "max_children": 2})
        c.out_of_bounds += ["more than 2 link keys / 2 children", "numeric settings outside the four boundary tuples"]
    return c.finish()


if __name__ == "__main__":
    sys.exit(main(sys.argv[1] if len(sys.argv) > 1 else "quick"))
