"""C03 - ASH frames on the wire follow the specified layout bit for bit.

bellows/ash.py is compiled from the working tree into a namespace whose bytes/bytearray/frozenset and
binascii.crc_hqx are solver-aware, so control fields, payload bytes, CRC bytes and corruption masks stay
symbolic through the real to_bytes / from_bytes / parse_frame / _stuff_bytes / _unstuff_bytes / _write_frame.
The oracle is the independent reference codec refs/ashref.py (bitwise CRC, own LFSR, own stuffing)."""
from __future__ import annotations

import sys

from refs import ashref as R
from refs.stubs import FakeTransport, Upper
from symx.core import SymInt, sand, site, snot, sor
from symx.run import Check, Harness

KINDS = ("DATA", "ACK", "NAK", "RST", "RSTACK", "ERROR")


def eq_bytes(ctx, got, want, msg, sig):
    got, want = list(got), list(want)
    ctx.check(len(got) == len(want), "%s: length %d instead of %d" % (msg, len(got), len(want)), sig + "-len")
    ctx.check(sand(*[a == b for a, b in zip(got, want)]), msg, sig)


def sym_fields(ctx, kind, plen):
    f = {"kind": kind}
    if kind == "DATA":
        f.update(frm=ctx.int("frm", 0, 7), retx=ctx.int("retx", 0, 1), ack=ctx.int("ack", 0, 7),
                 payload=[ctx.byte("pl%d" % j) for j in range(plen)])
    elif kind in ("ACK", "NAK"):
        f.update(res=ctx.int("res", 0, 1), nrdy=ctx.int("nrdy", 0, 1), ack=ctx.int("ack", 0, 7))
    elif kind in ("RSTACK", "ERROR"):
        f.update(code=ctx.byte("code"))
    return f


def ref_frame(f):
    k = f["kind"]
    if k == "DATA":
        return R.data_frame(f["frm"], f["retx"], f["ack"], f["payload"])
    if k == "ACK":
        return R.ack_frame(f["ack"], f["nrdy"], f["res"])
    if k == "NAK":
        return R.nak_frame(f["ack"], f["nrdy"], f["res"])
    if k == "RST":
        return R.rst_frame()
    if k == "RSTACK":
        return R.rstack_frame(f["code"])
    return R.error_frame(f["code"])


def impl_frame(ctx, ash, f):
    k = f["kind"]
    if k == "DATA":
        return ash.DataFrame(frm_num=f["frm"], re_tx=f["retx"], ack_num=f["ack"], ezsp_frame=ctx.mkbytes(f["payload"]))
    if k == "ACK":
        return ash.AckFrame(res=f["res"], ncp_ready=f["nrdy"], ack_num=f["ack"])
    if k == "NAK":
        return ash.NakFrame(res=f["res"], ncp_ready=f["nrdy"], ack_num=f["ack"])
    if k == "RST":
        return ash.RstFrame()
    if k == "RSTACK":
        return ash.RStackFrame(version=2, reset_code=f["code"])
    return ash.ErrorFrame(version=2, reset_code=f["code"])


def check_parsed(ctx, ash, fr, f, what):
    """A frame object returned by parse_frame must carry exactly the fields of f."""
    k = f["kind"]
    cls = {"DATA": ash.DataFrame, "ACK": ash.AckFrame, "NAK": ash.NakFrame, "RST": ash.RstFrame,
           "RSTACK": ash.RStackFrame, "ERROR": ash.ErrorFrame}[k]
    ctx.check(type(fr) is cls, "%s: parsed as %s instead of %s" % (what, type(fr).__name__, cls.__name__), "parse-class")
    if k == "DATA":
        ctx.check(sand(fr.frm_num == f["frm"], fr.re_tx == f["retx"], fr.ack_num == f["ack"]), what + ": DATA control fields changed", "parse-data-fields")
        eq_bytes(ctx, fr.ezsp_frame, f["payload"], what + ": DATA payload changed", "parse-data-payload")
    elif k in ("ACK", "NAK"):
        ctx.check(sand(fr.res == f["res"], fr.ncp_ready == f["nrdy"], fr.ack_num == f["ack"]), what + ": %s fields changed" % k, "parse-ack-fields")
    elif k in ("RSTACK", "ERROR"):
        ctx.check(sand(fr.version == 2, fr.reset_code == f["code"]), what + ": %s fields changed" % k, "parse-rst-fields")


class Lfsr(Harness):
    """Q1: randomisation sequence of every length 0..256."""

    name = "c03_lfsr"
    functions = ("generate_random_sequence",)

    def run(self, ctx):
        ash = ctx.ash
        n = ctx.choice("n", 257)
        got = list(ash.generate_random_sequence(n))
        ctx.check(got == R.lfsr(n), "generate_random_sequence(%d) differs from the specified LFSR sequence" % n, "lfsr")
        ctx.check(list(ash.PSEUDO_RANDOM_DATA_SEQUENCE)[:n] == R.lfsr(n)[:len(ash.PSEUDO_RANDOM_DATA_SEQUENCE)] and
                  len(ash.PSEUDO_RANDOM_DATA_SEQUENCE) >= min(n, 201),
                  "the precomputed randomisation sequence is wrong or shorter than the %d bytes a payload may need" % min(n, 201), "lfsr-table")
        ctx.observe(n, bytes(got[:4]))


class Encode(Harness):
    """Q2+Q3a: encode each frame type with symbolic fields/payload; to_bytes and the bytes written by _write_frame
    equal the reference; parse_frame(reference encoding) gives the fields back."""

    name = "c03_encode"
    must_reach = ("escaped", "plain")
    functions = ("DataFrame.to_bytes", "AckFrame.to_bytes", "NakFrame.to_bytes", "RstFrame.to_bytes", "RStackFrame.to_bytes",
                 "AshFrame.append_crc", "DataFrame._randomize", "AshProtocol._stuff_bytes", "AshProtocol._write_frame", "parse_frame")

    def run(self, ctx, plen=2, write=True):
        ash = ctx.ash
        kind = KINDS[ctx.choice("kind", len(KINDS))]
        pl = ctx.choice("plen", plen + 1) if kind == "DATA" else 0
        f = sym_fields(ctx, kind, pl)
        want = ref_frame(f)
        fr = impl_frame(ctx, ash, f)
        got = fr.to_bytes()
        eq_bytes(ctx, got, want, "%s.to_bytes() differs from the reference encoding" % kind, "encode-" + kind)
        # decode direction on the reference bytes
        back = ash.parse_frame(ctx.mkbytes(want))
        check_parsed(ctx, ash, back, f, "parse_frame(reference %s)" % kind)
        if write and kind in ("DATA", "ACK", "NAK", "RST"):
            p = ash.AshProtocol(Upper())
            tr = FakeTransport()
            p.connection_made(tr)
            cancel = kind == "RST"
            if cancel:
                p.send_reset()
            else:
                p._write_frame(fr)
            ctx.check(len(tr.writes) == 1, "one frame produced %d writes" % len(tr.writes), "write-count")
            wire = list(tr.writes[0][1])
            ref_wire = R.wire(want, cancel_prefix=cancel)
            if len(ref_wire) > len(want) + 1 + (1 if cancel else 0):
                ctx.label("escaped")
            else:
                ctx.label("plain")
            eq_bytes(ctx, wire, ref_wire, "bytes written for %s differ from the reference wire encoding" % kind, "wire-" + kind)
            for b in wire[(1 if cancel else 0):-1]:
                ctx.check(snot(sor(b == R.FLAG, b == R.XON, b == R.XOFF, b == R.SUB, b == R.CAN)),
                          "reserved byte inside the written frame", "wire-reserved")
        ctx.observe(kind, list(got))


class Inverse(Harness):
    """Q3b+Q5: an arbitrary byte string accepted by parse_frame is the canonical reference encoding of the result
    (so nothing but the specified layout is accepted); its class is the class of the control-byte table."""

    name = "c03_inverse"
    must_reach = ("accepted-DATA", "accepted-ACK", "accepted-NAK", "accepted-RST", "accepted-RSTACK", "accepted-ERROR", "rejected")
    functions = ("parse_frame", "AshFrame._unwrap", "DataFrame.from_bytes", "AckFrame.from_bytes", "NakFrame.from_bytes",
                 "RstFrame.from_bytes", "RStackFrame.from_bytes")

    def run(self, ctx, L=5):
        ash = ctx.ash
        n = 3 + ctx.choice("len", L - 2)
        y = [ctx.byte("y%d" % i) for i in range(n)]
        try:
            fr = ash.parse_frame(ctx.mkbytes(y))
        except ash.ParsingError:
            # rejection must agree with the reference decoder
            try:
                R.decode(list(y))
            except R.Bad:
                ctx.label("rejected")
                ctx.observe("rejected")
                return
            ctx.fail("parse_frame rejected a frame the reference decoder accepts", "over-reject")
        name = type(fr).__name__
        kind = {"DataFrame": "DATA", "AckFrame": "ACK", "NakFrame": "NAK", "RstFrame": "RST", "RStackFrame": "RSTACK", "ErrorFrame": "ERROR"}[name]
        ctx.label("accepted-" + kind)
        try:
            ref = R.decode(list(y))
        except R.Bad as e:
            ctx.fail("parse_frame accepted a %s frame the reference decoder rejects (%s)" % (kind, e), "over-accept")
        ctx.check(ref[0] == kind, "frame classified as %s, control-byte table says %s" % (kind, ref[0]), "classify")
        if kind == "DATA":
            f = {"kind": kind, "frm": ref[1], "retx": ref[2], "ack": ref[3], "payload": ref[4]}
        elif kind in ("ACK", "NAK"):
            f = {"kind": kind, "res": ref[1], "nrdy": ref[2], "ack": ref[3]}
        elif kind in ("RSTACK", "ERROR"):
            f = {"kind": kind, "code": ref[2]}
        else:
            f = {"kind": kind}
        check_parsed(ctx, ash, fr, f, "parse_frame(arbitrary bytes)")
        if kind in ("ACK", "NAK") and n != 3:
            # don't-care: ACK/NAK candidates that carry a data field (the specification gives them none; the
            # implementation ignores the extra bytes; the property does not demand rejection)
            ctx.label("acknak-with-data")
            ctx.observe(kind, n, "dont-care")
            return
        eq_bytes(ctx, fr.to_bytes(), y, "re-encoding the parsed frame does not give the accepted bytes back", "reencode")
        ctx.observe(kind, n)


class Stuff(Harness):
    """Q4: byte stuffing of symbolic data."""

    name = "c03_stuff"
    must_reach = ("all-reserved", "none-reserved")
    functions = ("AshProtocol._stuff_bytes", "AshProtocol._unstuff_bytes")

    def run(self, ctx, n=3):
        ash = ctx.ash
        k = ctx.choice("len", n + 1)
        d = [ctx.byte("d%d" % i) for i in range(k)]
        got = list(ash.AshProtocol._stuff_bytes(ctx.mkbytes(d)))
        want = R.stuff(d)
        eq_bytes(ctx, got, want, "stuffed bytes differ from the reference", "stuff")
        for b in got:
            ctx.check(snot(sor(b == R.FLAG, b == R.XON, b == R.XOFF, b == R.SUB, b == R.CAN)), "stuffed output contains a reserved byte", "stuff-reserved")
        back = list(ash.AshProtocol._unstuff_bytes(ctx.mkbytes(got)))
        eq_bytes(ctx, back, d, "unstuffing the stuffed bytes does not give the data back", "unstuff-inverse")
        if k and len(got) == 2 * k:
            ctx.label("all-reserved")
        if k and len(got) == k:
            ctx.label("none-reserved")
        ctx.observe(k, len(got))


class Corrupt(Harness):
    """Q6: a valid frame (arbitrary accepted bytes) with one or two flipped bits is rejected."""

    name = "c03_corrupt"
    must_reach = ("rejected-1bit", "rejected-2bit")
    functions = ("parse_frame", "AshFrame._unwrap")

    def run(self, ctx, L=5):
        ash = ctx.ash
        n = 3 + ctx.choice("len", L - 2)
        y = [ctx.byte("y%d" % i) for i in range(n)]
        try:
            ash.parse_frame(ctx.mkbytes(y))
        except ash.ParsingError:
            ctx.require(False)  # only valid frames are corrupted
        nbits = 8 * n
        p1 = ctx.int("bit1", 0, nbits - 1)
        p2 = ctx.int("bit2", 0, nbits)  # == nbits: single-bit error
        ctx.require(p1 < p2)
        z = []
        for i in range(n):
            m1 = site(sand(p1 >= 8 * i, p1 < 8 * i + 8), 1 << (p1 & 7), 0)
            m2 = site(sand(p2 >= 8 * i, p2 < 8 * i + 8), 1 << (p2 & 7), 0)
            z.append(y[i] ^ m1 ^ m2)
        try:
            fr = ash.parse_frame(ctx.mkbytes(z))
        except ash.ParsingError:
            ctx.label("rejected-1bit" if (p2 == nbits) else "rejected-2bit")
            ctx.observe("rejected", n)
            return
        ctx.fail("a frame differing from a valid %d-byte frame in one or two bits was accepted as %s" % (n, type(fr).__name__), "corruption-accepted")


class Long(Harness):
    """Q7: payload lengths up to 200 - concrete pattern with two symbolic bytes."""

    name = "c03_long"
    functions = ("DataFrame.to_bytes", "parse_frame", "DataFrame._randomize")

    def run(self, ctx, lengths=(200,), back=2):
        ash = ctx.ash
        n = lengths[ctx.choice("len", len(lengths))]
        pat = (R.FLAG, R.ESC, R.XON, R.XOFF, R.SUB, R.CAN, 0x00, 0xFF, 0x42, 0x7C)
        pl = [pat[i % len(pat)] for i in range(n)]
        if n >= back:
            pl[n - back] = ctx.byte("first")
        if n >= 1:
            pl[n - 1] = ctx.byte("last")
        # control fields concrete here (keeps the CRC state concrete up to the first symbolic byte); symbolic in ENCODE
        frm, ack = (n * 3) % 8, (n * 5) % 8
        f = {"kind": "DATA", "frm": frm, "retx": n % 2, "ack": ack, "payload": pl}
        want = ref_frame(f)
        try:
            got = impl_frame(ctx, ash, f).to_bytes()
        except Exception as e:
            ctx.fail("encoding a DATA frame with a %d-byte payload raised %s" % (n, type(e).__name__), "long-encode-raises")
        eq_bytes(ctx, got, want, "DATA frame with %d-byte payload differs from the reference" % n, "long-encode")
        try:
            back = ash.parse_frame(ctx.mkbytes(want))
        except Exception as e:
            ctx.fail("parsing a valid DATA frame with a %d-byte payload raised %s" % (n, type(e).__name__), "long-parse-raises")
        check_parsed(ctx, ash, back, f, "parse_frame(%d-byte payload)" % n)
        ctx.observe(n)


class WireLong(Harness):
    """Q8: worst-case stuffing on the wire: a DATA frame whose *randomised* data field consists of reserved bytes (every
    byte escaped) must come back from the receive side exactly, whole or byte by byte - the stuffed image of a legal frame
    is up to twice as long as the frame."""

    name = "c03_wire_long"
    must_reach = ("delivered",)
    functions = ("AshProtocol.data_received", "AshProtocol._unstuff_bytes", "parse_frame", "DataFrame.from_bytes", "AshProtocol._write_frame", "AshProtocol._stuff_bytes")

    def run(self, ctx, lengths=(1, 64, 100, 126, 127, 128)):
        from refs.stubs import FakeTransport, Upper

        ash = ctx.ash
        n = lengths[ctx.choice("len", len(lengths))]
        res = R.RESERVED[ctx.choice("reserved", len(R.RESERVED))]
        mix = ctx.flag("mixed")
        seq = R.lfsr(n)
        pl = [((res if (not mix or i % 2 == 0) else R.RESERVED[(i // 2) % len(R.RESERVED)]) ^ seq[i]) for i in range(n)]
        frm = ctx.choice("frm", 2) * 7
        wire = R.wire(R.data_frame(frm, 0, 0, pl))
        up = Upper()
        p = ash.AshProtocol(up)
        tr = FakeTransport()
        p.connection_made(tr)
        up.events.clear()
        p._rx_seq = frm
        if ctx.flag("bytewise"):
            for b in wire:
                p.data_received(ctx.mkbytes([b]))
        else:
            p.data_received(ctx.mkbytes(wire))
        ups = [e for e in up.events if e[0] == "up"]
        ctx.label("delivered")
        ctx.check(len(ups) == 1, "a valid DATA frame with a %d-byte payload whose stuffed image is %d bytes long was handed up %d times" % (n, len(wire), len(ups)),
                  "long-stuffed-frame-lost")
        ctx.check(bytes(ups[0][1]) == bytes(pl), "payload of the %d-byte frame changed on the receive side" % n, "long-stuffed-payload")
        # and the host's own encoder produces the same stuffed image
        w0 = len(tr.writes)
        p._write_frame(ash.DataFrame(frm_num=frm, re_tx=0, ack_num=0, ezsp_frame=ctx.mkbytes(pl)))
        ctx.check(bytes(tr.writes[w0][1]) == bytes(wire), "host wrote a different stuffed image for the %d-byte payload" % n, "long-stuffed-write")
        ctx.observe(n, len(wire))


LFSR, ENCODE, INVERSE, STUFF, CORRUPT, LONG, WIRELONG = Lfsr(), Encode(), Inverse(), Stuff(), Corrupt(), Long(), WireLong()


def main(tier):
    c = Check("C03", tier)
    c.assumptions += [
        "bellows/ash.py executed from source with bytes/bytearray/frozenset/binascii.crc_hqx replaced by solver-aware models (symx.sbytes); "
        "the CRC model is validated against binascii.crc_hqx path by path through the concrete re-runs",
        "reference ASH codec refs/ashref.py written from UG101 (bitwise CRC-CCITT, LFSR 0x42/0xB8, stuffing XOR 0x20)",
        "RSTACK/ERROR: version byte 2, two data bytes",
    ]
    if tier == "quick":
        c.run("checks.c03:LFSR", {})
        c.run("checks.c03:ENCODE", {"plen": 2, "write": True})
        c.run("checks.c03:INVERSE", {"L": 5})
        c.run("checks.c03:STUFF", {"n": 3})
        c.run("checks.c03:CORRUPT", {"L": 4})
        c.run("checks.c03:LONG", {"lengths": (129, 200), "back": 2})
        c.run("checks.c03:WIRELONG", {})
        c.out_of_bounds += ["fully symbolic payloads longer than 2 bytes (thorough: 6); longer payloads only as concrete pattern + two symbolic bytes (lengths 129, 200)",
                            "arbitrary accepted byte strings longer than 5 bytes (thorough: 7)", "corruptions of frames longer than 4 bytes (thorough: 6), three or more flipped bits",
                            "ACK/NAK candidates carrying a data field are don't-care for the exact-inverse clause"]
    else:
        c.run("checks.c03:LFSR", {})
        c.run("checks.c03:ENCODE", {"plen": 5, "write": True})
        c.run("checks.c03:INVERSE", {"L": 7})
        c.run("checks.c03:STUFF", {"n": 6})
        c.run("checks.c03:CORRUPT", {"L": 6}, wall_s=3000)
        c.run("checks.c03:LONG", {"lengths": tuple(range(0, 201, 8)) + (1, 127, 128, 129, 199), "back": 2})
        c.run("checks.c03:LONG", {"lengths": (16, 64, 128, 129, 200), "back": 8})
        c.run("checks.c03:WIRELONG", {"lengths": tuple(range(1, 129, 9)) + (120, 124, 125, 126, 127, 128)})
        c.out_of_bounds += ["fully symbolic payloads longer than 5 bytes", "arbitrary accepted byte strings longer than 7 bytes", "corruptions of frames longer than 6 bytes, three or more flipped bits",
                            "ACK/NAK candidates carrying a data field are don't-care for the exact-inverse clause"]
    return c.finish()


if __name__ == "__main__":
    sys.exit(main(sys.argv[1] if len(sys.argv) > 1 else "quick"))
