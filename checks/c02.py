"""C02 - the ASH receiver decodes any byte stream like the reference decoder, for any chunking.

Shadow-compiled bellows/ash.py: every stream byte is an unconstrained 8-bit solver variable, the expected frame
number is a 3-bit variable, the CRC is solved by z3.  The real data_received() is fed chunk by chunk, the
specification automaton refs.ashref.RefReceiver gets the same symbolic bytes in one piece; the event traces
(payload handed up, reset code reported, ACK/NAK number written) must be identical on every path."""
from __future__ import annotations

import sys

from refs import ashref as R
from symx.core import sand, snot, sor
from symx.run import Check, Harness


class Rec:
    """Transport + upper layer writing into one ordered event log."""

    def __init__(self):
        self.log = []
        self.closing = False

    # transport
    def write(self, data):
        self.log.append(("tx", data))

    def is_closing(self):
        return self.closing

    def close(self):
        self.closing = True

    # upper layer
    def connection_made(self, tr):
        pass

    def data_received(self, data):
        self.log.append(("up", data))

    def reset_received(self, code):
        self.log.append(("reset", code))

    def error_received(self, code):
        self.log.append(("reset", code))

    def connection_lost(self, exc):
        self.log.append(("lost",))


def mk(ctx, rx):
    ash = ctx.ash
    rec = Rec()
    p = ash.AshProtocol(rec)
    p.connection_made(rec)
    p._rx_seq = rx
    return ash, p, rec


RST_WIRE = [0x1A, 0xC0, 0x38, 0xBC, 0x7E]


def feed_impl(ctx, p, chunks, host_reset_between=False):
    for i, ch in enumerate(chunks):
        if i and host_reset_between:
            p.send_reset()  # a transmit-side action of the host between two reads must not disturb the receive decoder
        if not ch:
            continue
        try:
            p.data_received(ctx.mkbytes(ch))
        except Exception as e:
            ctx.fail("data_received raised %s: %s" % (type(e).__name__, e), "rx-raises:" + type(e).__name__)


def compare(ctx, rec, ref, what=""):
    """Event-by-event comparison of implementation and reference traces."""
    got = [e for e in rec.log if not (e[0] == "tx" and len(e[1]) == 5 and all(bool(a == b) for a, b in zip(list(e[1]), RST_WIRE)))]  # the host's own RST is not a receive-side event
    want = ref.events
    kinds_got = []
    for e in got:
        kinds_got.append(e[0])
    ctx.check(len(got) == len(want),
              what + "implementation produced %d events %r, reference decoder %d %r" % (len(got), kinds_got, len(want), [e[0] for e in want]),
              "trace-length")
    for i, (g, w) in enumerate(zip(got, want)):
        if w[0] == "up":
            ctx.check(g[0] == "up", what + "event %d: reference hands a payload up, implementation does %r" % (i, g[0]), "trace-kind")
            ctx.check(len(g[1]) == len(w[1]), what + "event %d: payload length differs" % i, "payload-length")
            ctx.check(sand(*[a == b for a, b in zip(list(g[1]), w[1])]), what + "event %d: payload bytes differ from the reference decoder" % i, "payload-bytes")
            ctx.label("up")
        elif w[0] == "reset":
            ctx.check(g[0] == "reset", what + "event %d: reference reports a reset, implementation does %r" % (i, g[0]), "trace-kind")
            ctx.check(g[1] == w[1], what + "event %d: reset code differs" % i, "reset-code")
            ctx.label("reset")
        else:
            ctx.check(g[0] == "tx", what + "event %d: reference writes %s, implementation does %r" % (i, w[1], g[0]), "trace-kind")
            _cancel, fr = R.parse_write(ctx, g[1])
            ctx.check(fr[0] == w[1], what + "event %d: implementation wrote %s, reference decoder %s" % (i, fr[0], w[1]), "ack-nak-kind")
            ctx.check(fr[3] == w[2], what + "event %d: %s number differs from the reference decoder" % (i, w[1]), "ack-nak-number")
            ctx.label("tx-" + w[1])


class Free(Harness):
    """(a) N unconstrained stream bytes, symbolic expected number, chunk cuts."""

    name = "c02_free"
    must_reach = ("up", "tx-ACK", "tx-NAK")
    functions = ("AshProtocol.data_received", "AshProtocol._unstuff_bytes", "parse_frame", "AshFrame._unwrap", "AshProtocol.frame_received",
                 "AshProtocol.data_frame_received", "AshProtocol._write_frame")

    def run(self, ctx, N=4, cuts="one"):
        rx = ctx.int("rx", 0, 7)
        ash, p, rec = mk(ctx, rx)
        s = [ctx.byte("b%d" % i) for i in range(N)]
        if cuts == "none":
            chunks = [s]
        elif cuts == "one":
            c = ctx.choice("cut", N)  # 0 = no cut
            chunks = [s[:c], s[c:]] if c else [s]
        else:  # every partition
            chunks, cur = [], [s[0]]
            for i in range(1, N):
                if ctx.flag("cut%d" % i):
                    chunks.append(cur)
                    cur = []
                cur.append(s[i])
            chunks.append(cur)
        ref = R.RefReceiver(rx)
        ref.feed(s)
        feed_impl(ctx, p, chunks)  # never raises, whatever the bytes
        if ref.dontcare:
            # dangling ESC directly before FLAG: the decoded result is not compared (specification silent)
            ctx.label("dontcare")
            ctx.observe("dontcare")
            return
        compare(ctx, rec, ref)
        ctx.check(p._rx_seq == ref.rx_seq, "expected frame number differs from the reference decoder after the stream", "rx-seq")
        ctx.observe([e[0] for e in rec.log], len(chunks))


SEG_KINDS = ("data", "data-corrupt", "rstack", "reserved")


class Structured(Harness):
    """(b) concatenation of k segments: reference-encoded DATA frames with symbolic frame number / reTx flag / payload byte,
    the same with one byte XOR-ed by a symbolic value at a symbolic position, RSTACK frames, single reserved bytes, free
    bytes; cut at a symbolic one of four places."""

    name = "c02_structured"
    must_reach = ("up", "tx-ACK", "tx-NAK", "reset", "two-up")
    functions = Free.functions

    def run(self, ctx, k=2, cut=True, kinds=SEG_KINDS):
        rx = ctx.int("rx", 0, 7)
        ash, p, rec = mk(ctx, rx)
        s = []
        for j in range(k):
            kind = kinds[ctx.choice("seg%d" % j, len(kinds))]
            if kind in ("data", "data-corrupt"):
                frm = ctx.int("frm%d" % j, 0, 7)
                pl = 0xA0 + j  # payload concrete here (symbolic payloads: FREE harness and C03)
                fb = R.data_frame(frm, ctx.int("retx%d" % j, 0, 1), 0, [pl])
                # control byte < 0x80 with ackNum 0 is never reserved except 0x11/0x13/0x18/0x1A: let wire() fork on it
                w = R.wire(fb)
                if kind == "data-corrupt":
                    pos = 1 + ctx.choice("pos%d" % j, 3)  # payload byte or one of the CRC bytes
                    x = ctx.int("xor%d" % j, 1, 255)
                    w = list(w)
                    w[pos] = w[pos] ^ x
                s += w
            elif kind == "rstack":
                code = (0x0B, 0x02)[ctx.choice("code%d" % j, 2)]
                s += R.wire(R.rstack_frame(code))
            elif kind == "reserved":
                s += [R.RESERVED[ctx.choice("res%d" % j, len(R.RESERVED))]]
            else:
                s += [ctx.byte("free%d" % j)]
        n = len(s)
        chunks = [s]
        if cut and n > 1:
            places = sorted({1, n // 2, n - 1})
            c = ctx.choice("cut", len(places) + 1)
            if c:
                chunks = [s[:places[c - 1]], s[places[c - 1]:]]
        ref = R.RefReceiver(rx)
        ref.feed(s)
        feed_impl(ctx, p, chunks)
        if ref.dontcare:
            ctx.label("dontcare")
            ctx.observe("dontcare")
            return
        compare(ctx, rec, ref)
        if len([e for e in ref.events if e[0] == "up"]) >= 2:
            ctx.label("two-up")
        ctx.check(p._rx_seq == ref.rx_seq, "expected frame number differs from the reference decoder after the stream", "rx-seq")
        ctx.observe([e[0] for e in rec.log], n)


class Bound(Harness):
    """(c) inductive step for the memory bound: any pre-state of the receive buffer, one more read."""

    name = "c02_bound"
    must_reach = ("truncated", "short")
    functions = ("AshProtocol.data_received",)

    def run(self, ctx):
        rx = 0
        ash, p, rec = mk(ctx, rx)
        MAX = ash.MAX_BUFFER_SIZE
        ctx.check(MAX <= 65536, "receive buffer bound is %d bytes" % MAX, "bound-constant")
        fill = (0x00, R.ESC, 0x42)[ctx.choice("fill", 3)]
        L = (0, 1, MAX - 1, MAX)[ctx.choice("prelen", 4)]
        if ctx.sym:
            from symx.sbytes import SByteArray

            p._buffer = SByteArray([fill] * L)
        else:
            p._buffer = bytearray([fill] * L)
        p._discarding_until_next_flag = ctx.flag("discarding")
        body = (0x00, R.ESC, R.XON, R.CAN, R.SUB, 0x42)[ctx.choice("chunkbyte", 6)]
        M = (1, MAX, MAX + 1, 3 * MAX)[ctx.choice("chunklen", 4)]
        if body in (R.XON,) and M > MAX + 1:
            M = MAX + 1  # XON/XOFF removal is quadratic in the model; keep the run short
        tail = (None, R.FLAG, R.CAN, R.SUB)[ctx.choice("tail", 4)]
        chunk = [body] * M + ([tail] if tail is not None else [])
        try:
            p.data_received(bytes(chunk) if not ctx.sym else ctx.mkbytes(chunk))
        except Exception as e:
            ctx.fail("data_received raised %s on garbage" % type(e).__name__, "rx-raises:" + type(e).__name__)
        n = len(p._buffer)
        ctx.check(n <= MAX, "receive buffer holds %d bytes after the read (bound %d)" % (n, MAX), "buffer-bound")
        ctx.label("truncated" if L + len(chunk) > MAX else "short")
        ups = [e for e in rec.log if e[0] in ("up", "reset")]
        ctx.check(not ups, "garbage produced an upward delivery", "garbage-delivered")
        ctx.observe(n, len(rec.log))


ITEMS = ("FRAME", "SUB", "CAN", "FLAG", "JUNK")


class Mixed(Harness):
    """(d) longer streams of whole valid DATA frames interleaved with control bytes, in one read or cut at any item
    boundary or inside the first frame: the frame contents are concrete, the *structure* is solver-decided."""

    name = "c02_mixed"
    must_reach = ("up", "tx-ACK", "tx-NAK", "two-up", "frame-after-substitute", "host-reset-between-reads")
    functions = Free.functions

    def run(self, ctx, k=5, items=ITEMS):
        ash, p, rec = mk(ctx, 0)
        parts = []
        nfr = 0
        kinds = []
        for j in range(k):
            it = items[ctx.choice("item%d" % j, len(items))]
            kinds.append(it)
            if it == "FRAME":
                parts.append(R.wire(R.data_frame(nfr % 8, 0, 0, [0xA0 + nfr, 0x5A])))
                nfr += 1
            else:
                parts.append([{"SUB": R.SUB, "CAN": R.CAN, "FLAG": R.FLAG, "JUNK": 0x42, "XON": R.XON, "ESC": R.ESC}[it]])
        s = [b for pt in parts for b in pt]
        bounds = [0]
        for pt in parts:
            bounds.append(bounds[-1] + len(pt))
        places = sorted(set(bounds[1:-1]) | ({2} if len(s) > 3 else set()))
        c = ctx.choice("cut", len(places) + 1)
        chunks = [s] if c == 0 else [s[:places[c - 1]], s[places[c - 1]:]]
        hr = c != 0 and ctx.flag("host_reset_between_reads")
        if hr:
            ctx.label("host-reset-between-reads")
        ref = R.RefReceiver(0)
        ref.feed(s)
        feed_impl(ctx, p, chunks, host_reset_between=hr)
        if ref.dontcare:
            ctx.label("dontcare")
            ctx.observe("dontcare")
            return
        compare(ctx, rec, ref, what="stream %s cut=%d%s: " % ("+".join(kinds), c, ", RST written between the reads" if hr else ""))
        if len([e for e in ref.events if e[0] == "up"]) >= 2:
            ctx.label("two-up")
        if "SUB" in kinds and "FRAME" in kinds[kinds.index("SUB"):] and kinds[0] == "FRAME":
            ctx.label("frame-after-substitute")
        ctx.check(p._rx_seq == ref.rx_seq, "expected frame number differs from the reference decoder after the stream", "rx-seq")
        if hasattr(p, "_discarding_until_next_flag"):  # anchored state; skipped if a refactor renames it (the traces above still decide)
            ctx.check(p._discarding_until_next_flag == ref.discard, "discard-until-FLAG state differs from the reference decoder after the stream", "discard-state")
        ctx.observe(kinds, c, [e[0] for e in rec.log])


class LongFrames(Harness):
    """(e) valid DATA frames with long data fields (up to 200 bytes), alone or followed by a second frame, whole or cut."""

    name = "c02_long"
    must_reach = ("up", "two-up")
    functions = Free.functions

    def run(self, ctx, lengths=(1, 127, 128, 129, 200)):
        ash, p, rec = mk(ctx, 0)
        n = lengths[ctx.choice("len", len(lengths))]
        pl = [(3 * i + n) & 0xFF for i in range(n)]
        s = R.wire(R.data_frame(0, 0, 0, pl))
        two = ctx.flag("second_frame")
        if two:
            s = s + R.wire(R.data_frame(1, 0, 0, [0x77]))
        c = ctx.choice("cut", 4)
        places = (None, 1, len(s) // 2, len(s) - 1)
        chunks = [s] if c == 0 else [s[:places[c]], s[places[c]:]]
        ref = R.RefReceiver(0)
        ref.feed(s)
        feed_impl(ctx, p, chunks)
        compare(ctx, rec, ref, what="%d-byte DATA frame%s, cut %d: " % (n, " + second frame" if two else "", c))
        if two:
            ctx.label("two-up")
        ctx.check(p._rx_seq == ref.rx_seq, "expected frame number differs from the reference decoder after the stream", "rx-seq")
        ctx.observe(n, two, c, [e[0] for e in rec.log])


FREE, STRUCTURED, BOUND, MIXED, LONGFRAMES = Free(), Structured(), Bound(), Mixed(), LongFrames()


def main(tier):
    c = Check("C02", tier)
    c.assumptions += [
        "bellows/ash.py executed from source with solver-aware bytes/bytearray/frozenset/crc_hqx (symx.sbytes)",
        "reference decoder refs/ashref.py:RefReceiver with the oracle decisions of DESIGN.md section 5/C02: XON/XOFF stripped anywhere; ESC followed by a byte whose "
        "un-escaped value is not reserved is invalid; CANCEL drops since the last FLAG, SUBSTITUTE drops through the next FLAG; every other non-empty invalid "
        "candidate is answered by one NAK with the expected number; empty candidates ignored",
        "don't-care (trace not compared, but the no-exception clause still checked): a frame candidate ending in a dangling ESC directly before FLAG",
        "memory bound decided as an inductive step over the receive-buffer pre-state instead of megabytes of garbage",
    ]
    if tier == "quick":
        c.run("checks.c02:FREE", {"N": 5, "cuts": "none"})
        c.run("checks.c02:FREE", {"N": 4, "cuts": "all"})
        c.run("checks.c02:STRUCTURED", {"k": 2, "cut": True, "kinds": ("data", "rstack", "reserved")})
        c.run("checks.c02:BOUND", {})
        c.run("checks.c02:MIXED", {"k": 5})
        c.run("checks.c02:LONGFRAMES", {})
        c.out_of_bounds += ["free streams longer than 5 bytes (whole) / 4 bytes (all 2^(n-1) partitions); longer inputs only in the structured family (2 segments of valid DATA / RSTACK / reserved byte, one cut; corrupted segments in thorough)",
                            "tracemalloc measurement", "streams longer than the stated bounds"]
    else:
        c.run("checks.c02:FREE", {"N": 6, "cuts": "none"}, wall_s=3000)
        c.run("checks.c02:FREE", {"N": 5, "cuts": "all"}, wall_s=3000)
        c.run("checks.c02:STRUCTURED", {"k": 2, "cut": True}, wall_s=3000)
        c.run("checks.c02:STRUCTURED", {"k": 3, "cut": True, "kinds": ("data", "rstack", "reserved")}, wall_s=3000)
        c.run("checks.c02:BOUND", {})
        c.run("checks.c02:MIXED", {"k": 6}, wall_s=3000)
        c.run("checks.c02:MIXED", {"k": 5, "items": ["FRAME", "SUB", "CAN", "FLAG", "JUNK", "XON", "ESC"]}, wall_s=3000)
        c.run("checks.c02:LONGFRAMES", {"lengths": [1, 2, 64, 126, 127, 128, 129, 130, 150, 199, 200]})
        c.out_of_bounds += ["free streams longer than 6 bytes (whole) / 5 bytes (all partitions); structured family 3 segments, one cut", "tracemalloc measurement"]
    return c.finish()


if __name__ == "__main__":
    sys.exit(main(sys.argv[1] if len(sys.argv) > 1 else "quick"))
