"""C18 - status normalisation is total and reports success only for success.

Real bellows.types.sl_Status.from_ember_status; the status family and the 8-bit code are solver
variables (the code is realised when the enum member is constructed: 256 path classes per family,
exhaustive).  Expected numeric values below are literals from the EmberZNet / sl_status headers, not
read from the module under test."""
from __future__ import annotations

import sys

from symx.run import Check, Harness

# (family, legacy code) -> unified numeric code, for the codes that steer retries / start-up
STEER = {
    ("ember", 0x00): 0x0000,  # SUCCESS -> OK
    ("ezsp", 0x00): 0x0000,
    ("ember", 0x93): 0x0017,  # NOT_JOINED
    ("ember", 0x90): 0x0015,  # NETWORK_UP
    ("ember", 0x91): 0x0016,  # NETWORK_DOWN
    ("ember", 0xB1): 0x0027,  # INDEX_OUT_OF_RANGE -> INVALID_INDEX
    ("ember", 0x03): 0x002D,  # NOT_FOUND (EMBER_ERR_FATAL+2 "not found") -> NOT_FOUND
    ("ember", 0xB6): 0x002D,  # TABLE_ENTRY_ERASED -> NOT_FOUND
    ("ember", 0x72): 0x0C03,  # MAX_MESSAGE_LIMIT_REACHED -> ZIGBEE_MAX_MESSAGE_LIMIT_REACHED (busy)
    ("ember", 0xA1): 0x0C03,  # NETWORK_BUSY -> busy
    ("ember", 0x18): 0x0019,  # NO_BUFFERS -> ALLOCATION_FAILED (busy)
    ("ember", 0x66): 0x0C02,  # DELIVERY_FAILED
    ("ember", 0x01): 0x0001,  # ERR_FATAL -> FAIL
}
OK = 0


class Legacy(Harness):
    name = "c18_legacy"
    must_reach = ("ok", "steer", "other", "undefined")
    functions = ("sl_Status.from_ember_status",)

    def run(self, ctx):
        import bellows.types as t

        fam = ("ember", "ezsp")[ctx.choice("family", 2)]
        code = ctx.choice("code", 256)
        cls = t.EmberStatus if fam == "ember" else t.EzspStatus
        status = cls(code)  # undefined codes become pseudo-members
        if status.name.startswith("undefined_"):
            ctx.label("undefined")
        try:
            r = t.sl_Status.from_ember_status(status)
        except Exception as e:
            ctx.fail("from_ember_status raised %s for %s code 0x%02X" % (type(e).__name__, fam, code), "raises")
        ctx.check(isinstance(r, t.sl_Status), "result for %s 0x%02X is not a unified status: %r" % (fam, code, r), "not-unified")
        rv = int.__index__(r)
        ctx.check((rv == OK) == (code == 0x00),
                  "%s code 0x%02X converts to %s: OK must be reported exactly for the success code" % (fam, code, r.name),
                  "ok-iff-success")
        if (fam, code) in STEER:
            ctx.label("steer")
            ctx.check(rv == STEER[(fam, code)],
                      "%s code 0x%02X converts to 0x%04X instead of 0x%04X" % (fam, code, rv, STEER[(fam, code)]), "steer-map")
        if code == 0:
            ctx.label("ok")
        else:
            ctx.label("other")
        ctx.observe(fam, code, rv)


class Unified(Harness):
    name = "c18_unified"
    must_reach = ("defined", "undefined")
    functions = ("sl_Status.from_ember_status",)
    SAMPLES = (0x00000002, 0x000000FF, 0x00000C1F, 0x0000FFFF, 0x00010000, 0x12345678, 0x7FFFFFFF, 0x80000000, 0xFFFFFFFE, 0xFFFFFFFF)

    def run(self, ctx):
        import bellows.types as t

        members = list(t.sl_Status.__members__.values())
        n = len(members)
        i = ctx.choice("idx", n + len(self.SAMPLES))
        if i < n:
            s = members[i]
            ctx.label("defined")
        else:
            s = t.sl_Status(self.SAMPLES[i - n])
            ctx.label("undefined" if s.name.startswith("undefined_") else "defined")
        try:
            r = t.sl_Status.from_ember_status(s)
        except Exception as e:
            ctx.fail("from_ember_status raised %s for unified status %r" % (type(e).__name__, s), "raises-unified")
        ctx.check(r is s, "unified status %r changed to %r" % (s, r), "unified-changed")
        ctx.check((int.__index__(r) == OK) == (int.__index__(s) == OK), "unified OK-ness changed", "unified-ok")
        ctx.observe(int.__index__(s), int.__index__(r))


class History(Harness):
    """The conversion is a function of its argument only: an earlier conversion of any other status value
    (either family) must not change what a steering status converts to."""

    name = "c18_history"
    must_reach = ("cross-family", "same-family")
    functions = ("sl_Status.from_ember_status",)

    def run(self, ctx):
        import bellows.types as t

        fams = {"ember": t.EmberStatus, "ezsp": t.EzspStatus}
        f1 = ("ember", "ezsp")[ctx.choice("family1", 2)]
        c1 = ctx.choice("code1", 256)
        keys = sorted(STEER) + [("ezsp", 0x35), ("ezsp", 0x37), ("ember", 0xFE), ("ezsp", 0xFF)]
        f2, c2 = keys[ctx.choice("second", len(keys))]
        ctx.label("same-family" if f1 == f2 else "cross-family")
        try:
            t.sl_Status.from_ember_status(fams[f1](c1))
            r = t.sl_Status.from_ember_status(fams[f2](c2))
        except Exception as e:
            ctx.fail("from_ember_status raised %s in a two-step history" % type(e).__name__, "raises")
        rv = int.__index__(r)
        ctx.check((rv == OK) == (c2 == 0), "after converting %s 0x%02X, %s 0x%02X converts to %s" % (f1, c1, f2, c2, r.name), "ok-iff-success")
        if (f2, c2) in STEER:
            ctx.check(rv == STEER[(f2, c2)],
                      "after converting %s 0x%02X, %s 0x%02X converts to 0x%04X instead of 0x%04X" % (f1, c1, f2, c2, rv, STEER[(f2, c2)]),
                      "steer-map-history")
        ctx.observe(f1, c1, f2, c2, rv)


LEGACY = Legacy()
HISTORY = History()
UNIFIED = Unified()


def main(tier):
    c = Check("C18", tier)
    c.assumptions += [
        "status values reach the function as members (or undefined pseudo-members) of their family's enum type, as the frame decoders produce them",
        "expected unified codes for the steering statuses are literals from the sl_status / EmberZNet headers",
        "zigpy's enum machinery (undefined pseudo-members) is trusted",
    ]
    c.run("checks.c18:LEGACY", {})
    c.run("checks.c18:UNIFIED", {})
    c.run("checks.c18:HISTORY", {})
    c.out_of_bounds += ["undefined unified (32-bit) statuses: only the %d listed samples" % len(Unified.SAMPLES)]
    return c.finish()


if __name__ == "__main__":
    sys.exit(main(sys.argv[1] if len(sys.argv) > 1 else "quick"))
