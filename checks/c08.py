"""C08 - malformed or unexpected EZSP frames are contained.

Real EZSP.frame_received with the real protocol handler of a version; an optional pending command is registered
through the real ProtocolHandler.command().  The incoming frame is a reference-encoded valid frame mutated by
solver-decided parameters: truncation length, one substituted byte (position and value), frame-ID substitution over
the whole command table, sequence-number relation to the pending command; plus short free strings."""
from __future__ import annotations

import asyncio
import sys

from refs import ezspref as E
from symx import vloop
from symx.run import Check, Harness

from checks.c06 import Gw, make_ezsp

PENDING = (None, "nop", "getValue", "setConfigurationValue", "networkInit", "getNetworkParameters", "callback")
BASES = ("nop", "getValue", "getConfigurationValue", "stackStatusHandler", "incomingMessageHandler", "messageSentHandler",
         "version", "invalidCommand", "networkInit", "getNetworkParameters", "trustCenterJoinHandler", "readCounters")
SUBST = (0x00, 0x01, 0x7F, 0x80, 0xFE, 0xFF)


def indep_decode(version, table_by_id, data):
    """Independent verdict: is `data` a known frame of this version that decodes?  -> (name, values) or None"""
    h = E.parse_header(version, data, strict=False)
    if h is None:
        return None
    seq, fc, fid, payload = h
    ent = table_by_id.get(fid)
    if ent is None:
        return None
    name, rx = ent
    try:
        vals, rest = E.dec_schema(rx, payload)
    except (E.CodecError, IndexError):
        return None
    if isinstance(vals, dict):
        vals = [vals]
    return name, vals, seq


class Contain(Harness):
    name = "c08_contain"
    must_reach = ("valid-completes", "id-mismatch", "undecodable", "unknown-id", "callback", "too-short", "later-ok", "foreign-seq", "late-reply")
    functions = ("EZSP.frame_received", "ProtocolHandler.__call__", "ProtocolHandler.command", "EZSP.handle_callback",
                 "bellows.types.deserialize_dict")

    def must_reach_for(self, params):
        mode = params.get("mode", "mutate")
        if mode == "idsweep":
            return ["valid-completes", "id-mismatch", "later-ok", "late-reply"]
        if mode == "free":
            return ["too-short", "later-ok"]
        return list(self.must_reach)

    def run(self, ctx, versions=(4, 8), mode="mutate", nfree=2, maxpos=None):
        version = versions[ctx.choice("version", len(versions))]

        async def main(loop):
            gw = Gw(loop)
            ez = make_ezsp(version, gw)
            ph = ez._protocol
            by_id = {}
            for name, (fid, _tx, rx) in ph.COMMANDS.items():
                by_id[fid] = (name, rx)
            cb_log = []
            ez.add_callback(lambda *a: cb_log.append(a))

            # ---- optional pending command
            pend = PENDING[ctx.choice("pending", len(PENDING))] if mode != "free" else (None, "nop")[ctx.choice("pending", 2)]
            ptask = None
            pseq = None
            if pend is not None:
                fid_p, tx_p, rx_p = ph.COMMANDS[pend]
                args = [E.build(ty, v) for ty, v in zip(tx_p.values(), E.sample_schema(tx_p, 3))]
                ph._seq = (0, 0x7E, 0xFF)[ctx.choice("pseq", 3)] if pend == "nop" else 0x21
                ptask = loop.create_task(ph.command(pend, *args))
                await asyncio.sleep(0)
                ctx.check(len(gw.sent) == 1, "pending command wrote %d frames" % len(gw.sent), "pending-setup")
                pseq = E.parse_header(version, gw.sent[0][1])[0]

            # ---- the incoming frame
            if mode == "free":
                n = ctx.choice("len", nfree + 1)
                data = bytes(ctx.choice("b%d" % i, 256) for i in range(n))
                what = "free string %s" % data.hex()
            else:
                if mode == "idsweep":
                    ctx.require(pend is not None)
                    base = pend
                else:
                    base = BASES[ctx.choice("base", len(BASES))]
                fid_b, _tx_b, rx_b = ph.COMMANDS[base]
                vals = E.sample_schema(rx_b, 2)
                payload = E.enc_schema(rx_b, vals)
                same_seq = pend is not None and ctx.flag("same_seq")
                seq = pseq if same_seq else ((pseq or 0) + 0x11) % 256
                fid = fid_b
                if mode == "idsweep":
                    ids = sorted(by_id)
                    fid = ids[ctx.choice("fid", len(ids))]
                    ctx.require(same_seq)
                frame = E.header(version, seq, fid) + payload
                what = "%s frame seq=%d id=0x%X" % (base, seq, fid)
                if mode == "mutate":
                    mut = ("none", "truncate", "substitute", "unknown-id")[ctx.choice("mut", 4)]
                    if mut == "truncate":
                        L = ctx.choice("trunc", len(frame))  # 0 .. len-1
                        frame = frame[:L]
                        what += " truncated to %d" % L
                    elif mut == "substitute":
                        positions = list(range(len(frame)))
                        if maxpos is not None and len(positions) > maxpos + 1:
                            positions = positions[:maxpos] + positions[-1:]
                        pos = positions[ctx.choice("pos", len(positions))]
                        cands = sorted(set(SUBST) | {frame[pos] ^ 1, (frame[pos] + 1) & 0xFF})
                        v = cands[ctx.choice("val", len(cands))]
                        frame = frame[:pos] + [v] + frame[pos + 1:]
                        what += " byte %d := 0x%02X" % (pos, v)
                    elif mut == "unknown-id":
                        unknown = [i for i in ((0xFE, 0xFD, 0xFC, 0x4E) if version < 8 else (0xFFFE, 0x0FFF, 0x7F00, 0x01FE)) if i not in by_id]
                        fid = unknown[ctx.choice("ufid", len(unknown))]
                        frame = E.header(version, seq, fid) + payload
                        what += " unknown id 0x%X" % fid
                data = bytes(frame)

            verdict = indep_decode(version, by_id, data)
            n_cb0 = len(cb_log)
            try:
                ez.frame_received(data)
            except Exception as e:
                ctx.fail("frame_received raised %s: %s for %s" % (type(e).__name__, e, what), "rx-raises")
            await asyncio.sleep(0)
            new_cbs = [a for a in cb_log[n_cb0:] if a[0] != "_reset_controller_application"]

            if verdict is None:
                if len(data) < 3:
                    ctx.label("too-short")
                elif E.parse_header(version, data, strict=False) is not None and E.parse_header(version, data, strict=False)[2] not in by_id:
                    ctx.label("unknown-id")
                else:
                    ctx.label("undecodable")
                ctx.check(not new_cbs, "callback %r invoked for a frame that does not decode as a known frame (%s)" % ([a[0] for a in new_cbs], what), "callback-on-bad-frame")
                if ptask is not None:
                    ctx.check(not (ptask.done() and not ptask.cancelled() and ptask.exception() is None),
                              "pending %s completed by an undecodable / unknown frame (%s)" % (pend, what), "completed-by-bad-frame")
            else:
                name, vals_d, seq_d = verdict
                hit = ptask is not None and seq_d == pseq
                if hit and name == pend:
                    ctx.label("valid-completes")
                    ctx.check(ptask.done() and ptask.exception() is None, "valid reply with the pending sequence number and frame ID did not complete %s (%s)" % (pend, what),
                              "valid-reply-lost")
                    if ptask.done() and ptask.exception() is None:
                        got = E.plainify(list(ptask.result()))
                        ctx.check(got == vals_d, "pending %s completed with %r, the frame carried %r" % (pend, got, vals_d), "completed-wrong-payload")
                    ctx.check(not new_cbs, "reply to a pending command was also dispatched as a callback", "reply-also-callback")
                elif hit:
                    ctx.label("id-mismatch")
                    ok_res = ptask.done() and not ptask.cancelled() and ptask.exception() is None
                    ctx.check(not ok_res, "pending %s was completed by a %s frame carrying its sequence number (payload of a different command)" % (pend, name),
                              "completed-by-other-command")
                    if ptask.done() and not ptask.cancelled() and ptask.exception() is not None:
                        ctx.check(name == "invalidCommand", "pending %s failed with %r on a %s frame" % (pend, ptask.exception(), name), "failed-by-other-command")
                else:
                    ctx.label("foreign-seq" if ptask is not None else "callback")
                    if ptask is not None:
                        ctx.check(not ptask.done(), "pending %s (seq %d) completed by a frame with sequence number %d" % (pend, pseq, seq_d), "completed-by-foreign-seq")
                    for a in new_cbs:
                        ctx.check(a[0] == name and E.plainify(list(a[1])) == vals_d,
                                  "callback %s%r does not match the frame (%s %r)" % (a[0], E.plainify(list(a[1])), name, vals_d), "callback-args")
                    ctx.check(len(new_cbs) <= 1, "one frame invoked the callback %d times" % len(new_cbs), "callback-twice")

            # ---- a command issued afterwards completes normally
            if ptask is not None and not ptask.done():
                # let the orphaned command run into its timeout; it must end, not hang
                try:
                    await asyncio.wait_for(asyncio.shield(ptask), 11)
                except (asyncio.TimeoutError, Exception):
                    pass
                ctx.check(ptask.done(), "pending %s neither completed nor timed out" % pend, "pending-hangs")
            if ptask is not None and ptask.done() and not ptask.cancelled() and isinstance(ptask.exception(), asyncio.TimeoutError):
                # the genuine reply finally arrives, late: nothing may escape the receive entry point (not even a BaseException)
                ctx.label("late-reply")
                fid_p, _tx_p, rx_p = ph.COMMANDS[pend]
                late = bytes(E.header(version, pseq, fid_p) + E.enc_schema(rx_p, E.sample_schema(rx_p, 2)))
                try:
                    ez.frame_received(late)
                except BaseException as e:
                    if type(e).__module__.startswith("symx"):
                        raise
                    ctx.fail("frame_received raised %s on the late reply to a timed-out %s" % (type(e).__name__, pend), "rx-raises-late-reply")
            n0 = len(gw.sent)
            later = loop.create_task(ph.command("getConfigurationValue", E.build(list(ph.COMMANDS["getConfigurationValue"][1].values())[0], 1)))
            await asyncio.sleep(0)
            ctx.check(len(gw.sent) == n0 + 1, "a later command was not written", "later-not-sent")
            lseq = E.parse_header(version, gw.sent[-1][1])[0]
            rx_l = ph.COMMANDS["getConfigurationValue"][2]
            ez.frame_received(bytes(E.header(version, lseq, ph.COMMANDS["getConfigurationValue"][0]) + E.enc_schema(rx_l, [0, 0x2345])))
            try:
                res = await asyncio.wait_for(later, 1)
                ctx.check(E.plainify(list(res)) == [0, 0x2345], "later command returned %r" % (res,), "later-wrong")
                ctx.label("later-ok")
            except Exception as e:
                ctx.fail("a command issued after %s did not complete normally: %s" % (what, type(e).__name__), "later-failed")
            ctx.observe(version, pend, pseq, data, verdict[0] if verdict else None, [a[0] for a in new_cbs],
                        ptask.done() if ptask else None)

        vloop.run(main)


CONTAIN = Contain()


def main(tier):
    c = Check("C08", tier)
    c.assumptions += [
        "gateway is a recorder; frames reach the stack through EZSP.frame_received as delivered by the link layer",
        "'decodes fully as a known frame' is judged by the independent header parser and structural decoder of refs/ezspref.py over the version's command table; trailing bytes are tolerated",
        "frame-control / frame-format bytes of incoming frames are not judged (the property does not demand their validation); field positions follow the version's header layout",
        "an invalidCommand frame carrying the pending sequence number may fail that command (it is not the payload of a different command)",
    ]
    if tier == "quick":
        c.run("checks.c08:CONTAIN", {"versions": [4, 7, 8, 14], "mode": "mutate", "maxpos": 8})
        c.run("checks.c08:CONTAIN", {"versions": [4, 13], "mode": "idsweep"})
        c.run("checks.c08:CONTAIN", {"versions": [4, 8], "mode": "free", "nfree": 1})
        c.out_of_bounds += ["substituted byte values outside the boundary set {00,01,7F,80,FE,FF,orig^1,orig+1}", "more than one mutation per frame", "substitution positions beyond the first 8 bytes and the last byte (thorough: every position)",
                            "free strings longer than 1 byte (thorough: 2)", "versions other than 4, 7, 8, 13, 14"]
    else:
        c.run("checks.c08:CONTAIN", {"versions": list(range(4, 15)), "mode": "mutate"})
        c.run("checks.c08:CONTAIN", {"versions": list(range(4, 15)), "mode": "idsweep"})
        c.run("checks.c08:CONTAIN", {"versions": [4, 8], "mode": "free", "nfree": 2})
        c.out_of_bounds += ["substituted byte values outside the boundary set", "more than one mutation per frame", "free strings longer than 2 bytes"]
    return c.finish()


if __name__ == "__main__":
    sys.exit(main(sys.argv[1] if len(sys.argv) > 1 else "quick"))
