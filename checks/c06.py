"""C06 - each EZSP command gets its own response; one in flight; keep-alives go first.

Real ProtocolHandler.command / __call__ of a protocol version and the real EZSP.frame_received / handle_callback on a
virtual-time loop.  The gateway is a recorder whose send outcome is solver-decided; the NCP is scripted at EZSP-frame
level with frames built by the independent header/value encoder.  Solver-decided: protocol version, start sequence
number, the priority class of every caller, the NCP's behaviour for every request, a cancellation point."""
from __future__ import annotations

import asyncio
import sys

from refs import ezspref as E
from symx import vloop
from symx.run import Check, Harness

EPS = 1e-6
CLASSES = ("keepalive", "ordinary", "send")
PRIO = {"keepalive": 2, "ordinary": 1, "send": 0}
BEHAVIOURS = ("reply", "late", "never", "twice", "cb-then-reply", "reply-then-cb", "foreign-then-reply", "linkfail")
CMD_TIMEOUT = 10.0


class LinkDown(Exception):
    pass


def make_ezsp(version, gw):
    from bellows.ezsp import EZSP

    ez = EZSP({"path": "/dev/null"})
    ez._gw = gw
    ez._switch_protocol_version(version)
    ez.start_ezsp()
    return ez


class Gw:
    def __init__(self, loop):
        self.loop = loop
        self.sent = []  # (time, bytes, task)
        self.on_send = None
        self.ack_latency = 0.0  # time the link layer needs until the frame is acknowledged (send_data returns)

    async def send_data(self, data):
        rec = (self.loop.time(), bytes(data), asyncio.current_task())
        self.sent.append(rec)  # the frame is on the wire from here on, whatever happens to the caller
        verdict = self.on_send(rec) if self.on_send is not None else None
        if verdict == "linkfail":
            await asyncio.sleep(0.5)  # the link layer gives up after its own retries
            raise LinkDown("link down")
        if self.ack_latency:
            await asyncio.sleep(self.ack_latency)

    def close(self):
        pass


def call_for(ez, cls, k):
    import bellows.types as t

    if cls == "keepalive":
        return ez.getValue(valueId=t.EzspValueId.VALUE_FREE_BUFFERS)
    if cls == "ordinary":
        return ez.getConfigurationValue(configId=t.EzspConfigId.CONFIG_STACK_PROFILE)
    aps = t.EmberApsFrame(profileId=260, clusterId=6, sourceEndpoint=1, destinationEndpoint=1,
                          options=t.EmberApsOption.APS_OPTION_NONE, groupId=0, sequence=k)
    names = list(ez._protocol.COMMANDS["sendUnicast"][1])
    vals = [t.EmberOutgoingMessageType.OUTGOING_DIRECT, 0x1234, aps, k, b"\x01\x02"]
    return ez.sendUnicast(**dict(zip(names, vals)))


CMD_OF = {"keepalive": "getValue", "ordinary": "getConfigurationValue", "send": "sendUnicast"}


def reply_values(cls, n):
    """Distinct, recognisable response values for request number n."""
    if cls == "keepalive":
        return [0, bytes([0xC0 + n, n])]
    if cls == "ordinary":
        return [0, 0x1100 + n]
    return [0, 0x40 + n]


class Calls(Harness):
    name = "c06_calls"
    must_reach = ("returned", "timeout", "linkfail", "late-reply", "duplicate", "callback", "foreign", "reordered", "wrap")
    functions = ("ProtocolHandler.command", "ProtocolHandler.__call__", "ProtocolHandler._get_command_priority",
                 "EZSP.frame_received", "EZSP.handle_callback", "EZSP._command")

    def must_reach_for(self, params):
        mr = list(self.must_reach)
        if params.get("n", 2) < 3:
            mr.remove("reordered")
        if params.get("behaviours") == "basic":
            mr = [m for m in mr if m in ("returned", "timeout", "reordered")]
        if params.get("cancel"):
            mr = [m for m in mr if m != "reordered"] + ["cancelled"]
        return mr

    def run(self, ctx, n=2, versions=(4, 8), seqs=(0, 1, 254, 255), behaviours="all", cancel=False):
        version = versions[ctx.choice("version", len(versions))]
        seq0 = seqs[ctx.choice("seq0", len(seqs))]
        classes = [CLASSES[ctx.choice("class%d" % k, 3)] for k in range(n)]
        beh = BEHAVIOURS if behaviours == "all" else ("reply", "late", "never")
        cancel_k = cancel_at = None
        if cancel:
            cancel_k = ctx.choice("cancel_k", n)
            cancel_at = (0.0, 0.004, 0.02, 0.2, 5.0)[ctx.choice("cancel_at", 5)]  # 0.004: inside the link layer's send (frame written, not yet acknowledged)

        async def main(loop):
            gw = Gw(loop)
            if cancel:
                gw.ack_latency = 0.008
            ez = make_ezsp(version, gw)
            ph = ez._protocol
            ph._seq = seq0
            cbs = [[], []]
            ez.add_callback(lambda *a: cbs[0].append(a))
            ez.add_callback(lambda *a: cbs[1].append(a))
            reqs = []  # per request: dict
            injected_cb = []
            last_resp_seq = [0xAA]
            tasks = {}

            def frame(seq, name, values):
                fid, _tx, rx = ph.COMMANDS[name]
                return bytes(E.header(version, seq, fid) + E.enc_schema(rx, values))

            def deliver(data, resp_seq=None):
                if resp_seq is not None:
                    last_resp_seq[0] = resp_seq
                ez.frame_received(data)

            def inject_cb(at):
                i = len(injected_cb)
                injected_cb.append(i)

                def go():
                    # callbacks carry the sequence number of the last response sent, never a pending one
                    fid, _tx, rx = ph.COMMANDS["stackStatusHandler"]
                    data = bytes(E.header(version, last_resp_seq[0], fid, callback=True) + E.enc_schema(rx, [0x90]))
                    ez.frame_received(data)

                loop.call_later(at, go)

            def on_send(rec):
                ts, data, task = rec
                fmt, seq, fid, payload = E.parse_any(data)
                ctx.check(fmt == E.family(version), "request framed as %s for protocol version %d" % (fmt, version), "wrong-framing")
                k = [kk for kk, tk in tasks.items() if tk is task]
                ctx.check(len(k) == 1, "request written outside any caller's task", "foreign-task")
                k = k[0]
                cls = classes[k] if k < n else "ordinary"
                ctx.check(fid == ph.COMMANDS[CMD_OF[cls]][0], "caller %d (%s) wrote frame id 0x%X" % (k, cls, fid), "wrong-frame-id")
                r = len(reqs)
                b = beh[ctx.choice("beh%d" % r, len(beh))] if k < n else "reply"
                vals = reply_values(cls, r)
                reqs.append({"k": k, "t": ts, "seq": seq, "cls": cls, "beh": b, "vals": vals, "end": None})
                good = frame(seq, CMD_OF[cls], vals)
                if b == "linkfail":
                    return "linkfail"
                if b in ("reply", "twice", "reply-then-cb", "cb-then-reply"):
                    if b == "cb-then-reply":
                        inject_cb(0.03)
                    loop.call_later(0.05, deliver, good, seq)
                    if b == "twice":
                        loop.call_later(0.06, deliver, good, seq)
                    if b == "reply-then-cb":
                        inject_cb(0.06)
                elif b == "foreign-then-reply":
                    # a reply under a sequence number nobody is waiting for, then the real one
                    loop.call_later(0.05, deliver, frame((seq + 7) % 256, CMD_OF[cls], reply_values(cls, r + 50)), None)
                    loop.call_later(0.07, deliver, good, seq)
                elif b == "late":
                    loop.call_later(CMD_TIMEOUT + 0.5, deliver, good, seq)

            gw.on_send = on_send
            outcomes = {}

            async def caller(k, cls):
                t0 = loop.time()
                try:
                    res = await call_for(ez, cls, k)
                    outcomes[k] = ("ok", loop.time(), res)
                except asyncio.CancelledError:
                    outcomes[k] = ("cancelled", loop.time(), None)
                except Exception as e:
                    outcomes[k] = (type(e).__name__, loop.time(), e)

            for k in range(n):
                tasks[k] = loop.create_task(caller(k, classes[k]))
            if cancel_k is not None:
                loop.call_later(cancel_at, tasks[cancel_k].cancel) if cancel_at else tasks[cancel_k].cancel()
            try:
                await asyncio.gather(*tasks.values(), return_exceptions=True)
                for k, tk in tasks.items():
                    if k not in outcomes and tk.cancelled():
                        outcomes[k] = ("cancelled", loop.time(), None)  # cancelled before it ever ran
                await asyncio.sleep(CMD_TIMEOUT + 2)  # late replies arrive; they may complete nothing
                # the semaphore is free again: a probe command starts at once and completes
                tp = loop.time()
                tasks[n] = loop.create_task(caller(n, "ordinary"))
                await tasks[n]
                await asyncio.sleep(1)
            except vloop.Deadlock:
                ctx.fail("a command call neither returned nor raised", "command-hangs")

            # ---------------- oracle
            by_k = {}
            for r in reqs:
                ctx.check(r["k"] not in by_k, "caller %d wrote two request frames" % r["k"], "double-request")
                by_k[r["k"]] = r
            # sequence numbers advance by one modulo 256
            for i, r in enumerate(reqs):
                ctx.check(r["seq"] == (seq0 + i) % 256, "request %d carries sequence number %d, expected %d" % (i, r["seq"], (seq0 + i) % 256), "seq-advance")
                if i and r["seq"] < reqs[i - 1]["seq"]:
                    ctx.label("wrap")
            # outcome of every call
            for k in range(n + 1):
                ctx.check(k in outcomes, "caller %d has no outcome" % k, "no-outcome")
                kind, tend, val = outcomes[k]
                r = by_k.get(k)
                if kind == "cancelled":
                    ctx.check(k == cancel_k, "caller %d was cancelled by somebody else" % k, "spurious-cancel")
                    ctx.label("cancelled")
                    if r is not None:
                        r["end"] = tend
                    continue
                ctx.check(r is not None, "caller %d ended (%s) without ever writing its request" % (k, kind), "no-request")
                b = r["beh"]
                if b == "linkfail":
                    ctx.label("linkfail")
                    ctx.check(kind == "LinkDown" and abs(tend - r["t"] - 0.5) < EPS, "link failure surfaced as %s at +%.3f" % (kind, tend - r["t"]), "linkfail-outcome")
                    r["end"] = tend
                elif b in ("late", "never"):
                    ctx.label("timeout")
                    if b == "late":
                        ctx.label("late-reply")
                    ctx.check(kind == "TimeoutError", "no reply within the command timeout but the call ended with %s" % kind,
                              "completed-without-reply" if kind == "ok" else "no-timeout")
                    ctx.check(abs(tend - (r["t"] + gw.ack_latency + CMD_TIMEOUT)) < EPS, "timeout raised at +%.3f s" % (tend - r["t"]), "timeout-instant")  # the wait starts once the link layer has taken the frame
                    r["end"] = tend
                else:
                    ctx.label("returned")
                    if b == "twice":
                        ctx.label("duplicate")
                    if b == "foreign-then-reply":
                        ctx.label("foreign")
                    at = 0.07 if b == "foreign-then-reply" else 0.05
                    ctx.check(kind == "ok", "reply with the caller's sequence number arrived but the call ended with %s" % kind, "reply-lost")
                    ctx.check(abs(tend - (r["t"] + at)) < EPS, "call completed at +%.3f s, its reply arrived at +%.2f s" % (tend - r["t"], at), "completion-instant")
                    got = E.plainify(list(val)) if kind == "ok" else None
                    ctx.check(got == E.plainify(r["vals"]), "caller %d received %r, the reply to its request carried %r" % (k, got, r["vals"]), "wrong-payload")
                    r["end"] = tend
            # one in flight
            for i, r in enumerate(reqs[1:], 1):
                p = reqs[i - 1]
                ctx.check(p["end"] is not None and r["t"] >= p["end"] - EPS,
                          "request %d was written at %.3f while request %d (written %.3f) was still awaiting its response" % (i, r["t"], i - 1, p["t"]),
                          "two-in-flight")
            # start order of the queued callers: class, then arrival
            started = [r["k"] for r in reqs if r["k"] < n]
            waiting = [k for k in range(1, n) if k in by_k]
            if cancel_k is None:
                expect = [0] + sorted(range(1, n), key=lambda k: (-PRIO[classes[k]], k))
                ctx.check(started == expect, "callers started in order %r, priority order is %r (classes %r)" % (started, expect, classes), "start-order")
                if expect != list(range(n)):
                    ctx.label("reordered")
            else:
                # cancellation of one caller must not reorder the others
                rest = [k for k in started if k != cancel_k]
                alive = [k for k in range(n) if not (k == cancel_k and cancel_at == 0.0)]  # cancelled before it ever ran
                expect = [k for k in alive[:1] + sorted(alive[1:], key=lambda k: (-PRIO[classes[k]], k)) if k != cancel_k or k in started]
                expect = [k for k in expect if k != cancel_k]
                ctx.check(rest == expect, "callers started in order %r, expected %r" % (rest, expect), "start-order")
            # callbacks: every unsolicited callback frame reaches every registered callback exactly once
            for c in cbs:
                got = [a for a in c if a[0] == "stackStatusHandler"]
                ctx.check(len(got) == len(injected_cb), "a registered callback saw %d of %d unsolicited frames" % (len(got), len(injected_cb)), "callback-count")
                for a in got:
                    ctx.check([int(x) for x in a[1]] == [0x90], "callback arguments changed", "callback-args")
            if injected_cb:
                ctx.label("callback")
            ctx.observe(version, seq0, classes, [(r["k"], r["seq"], r["beh"], round(r["t"], 3)) for r in reqs],
                        {k: (o[0], round(o[1], 3)) for k, o in outcomes.items()})

        vloop.run(main)


class Callbacks(Harness):
    """Histories of add_callback / remove_callback, then an unsolicited frame: every callback that is registered at that
    moment receives it exactly once, removed ones do not, and removing returns the callback that was registered."""

    name = "c06_callbacks"
    must_reach = ("removed-middle", "re-added")
    functions = ("EZSP.add_callback", "EZSP.remove_callback", "EZSP.handle_callback", "EZSP.frame_received")

    def run(self, ctx, ops=5, version=8):
        async def main(loop):
            gw = Gw(loop)
            ez = make_ezsp(version, gw)
            ph = ez._protocol
            logs = {}
            ids = {}  # live callbacks: key -> registration id
            fns = {}
            nxt = 0
            hist = []
            for i in range(ops):
                live = sorted(ids)
                kinds = ["add"] + ["remove:%d" % k for k in live] + ["event"]
                op = kinds[ctx.choice("op%d" % i, len(kinds))]
                hist.append(op)
                if op == "add":
                    k = nxt
                    nxt += 1
                    logs[k] = []
                    fns[k] = (lambda kk: (lambda *a: logs[kk].append(a)))(k)
                    ids[k] = ez.add_callback(fns[k])
                    if len(hist) >= 2 and any(h.startswith("remove") for h in hist[:-1]):
                        ctx.label("re-added")
                elif op.startswith("remove"):
                    k = int(op.split(":")[1])
                    if live and k != live[-1] and k != live[0] or (len(live) >= 2 and k == live[0]):
                        ctx.label("removed-middle")
                    try:
                        got = ez.remove_callback(ids.pop(k))
                    except Exception as e:
                        ctx.fail("removing callback %d after %r raised %s" % (k, hist, type(e).__name__), "remove-raises")
                    ctx.check(got is fns[k], "remove_callback returned another callback than the one registered under that id (history %r)" % hist, "remove-wrong-callback")
                else:
                    before = {k: len(v) for k, v in logs.items()}
                    fid, _tx, rx = ph.COMMANDS["stackStatusHandler"]
                    ez.frame_received(bytes(E.header(version, 0x99, fid, callback=True) + E.enc_schema(rx, [0x90])))
                    for k in logs:
                        want = 1 if k in ids else 0
                        ctx.check(len(logs[k]) - before[k] == want, "callback %d (%s) received an unsolicited frame %d times after history %r"
                                  % (k, "registered" if k in ids else "removed", len(logs[k]) - before[k], hist), "callback-delivery")
            # closing event
            before = {k: len(v) for k, v in logs.items()}
            fid, _tx, rx = ph.COMMANDS["stackStatusHandler"]
            ez.frame_received(bytes(E.header(version, 0x99, fid, callback=True) + E.enc_schema(rx, [0x91])))
            for k in logs:
                want = 1 if k in ids else 0
                ctx.check(len(logs[k]) - before[k] == want, "callback %d (%s) received the closing frame %d times after history %r"
                          % (k, "registered" if k in ids else "removed", len(logs[k]) - before[k], hist), "callback-delivery")
            ctx.observe(hist, {k: len(v) for k, v in logs.items()})

        vloop.run(main)


class LongRun(Harness):
    """One command is never answered (its pending entry goes stale); then more than 256 further commands: every one of
    them completes with its own reply and the sequence numbers keep advancing by one, across the full wrap."""

    name = "c06_longrun"
    must_reach = ("wrapped-past-stale",)
    functions = ("ProtocolHandler.command", "ProtocolHandler.__call__")

    def run(self, ctx, versions=(4, 8), count=260):
        version = versions[ctx.choice("version", len(versions))]
        seq0 = (0, 200)[ctx.choice("seq0", 2)]
        stale_kind = ("never", "late", "linkfail")[ctx.choice("stale", 3)]

        async def main(loop):
            gw = Gw(loop)
            ez = make_ezsp(version, gw)
            ph = ez._protocol
            ph._seq = seq0
            n = [0]
            seqs = []

            def on_send(rec):
                ts, data, task = rec
                fmt, seq, fid, payload = E.parse_any(data)
                i = n[0]
                n[0] += 1
                seqs.append(seq)
                if i == 0:
                    if stale_kind == "linkfail":
                        return "linkfail"
                    if stale_kind == "late":
                        fid_, _tx, rx = ph.COMMANDS["getConfigurationValue"]
                        loop.call_later(CMD_TIMEOUT + 0.5, ez.frame_received, bytes(E.header(version, seq, fid_) + E.enc_schema(rx, [0, 0x7777])))
                    return None
                fid_, _tx, rx = ph.COMMANDS["getConfigurationValue"]
                loop.call_later(0.01, ez.frame_received, bytes(E.header(version, seq, fid_) + E.enc_schema(rx, [0, 0x1000 + i])))

            gw.on_send = on_send
            import bellows.types as t

            async def one():
                try:
                    return ("ok", await ez.getConfigurationValue(configId=t.EzspConfigId.CONFIG_STACK_PROFILE))
                except Exception as e:
                    return (type(e).__name__, None)

            r0 = await one()
            ctx.check(r0[0] != "ok", "the unanswered command returned normally", "completed-without-reply")
            for i in range(1, count):
                r = await one()
                ctx.check(r[0] == "ok", "command %d after a stale request ended with %s (sequence numbers so far %r...)" % (i, r[0], seqs[-4:]), "longrun-outcome")
                ctx.check([int(x) for x in r[1]] == [0, 0x1000 + i], "command %d received %r instead of its own reply" % (i, r[1]), "longrun-payload")
            ctx.label("wrapped-past-stale")
            for i, sq in enumerate(seqs):
                ctx.check(sq == (seq0 + i) % 256, "request %d carries sequence number %d, expected %d" % (i, sq, (seq0 + i) % 256), "seq-advance")
            ctx.observe(version, seq0, stale_kind, len(seqs))

        vloop.run(main)


CALLS = Calls()
CALLBACKS = Callbacks()
LONGRUN = LongRun()


def main(tier):
    c = Check("C06", tier)
    c.assumptions += [
        "gateway replaced by a recorder (send_data returns or raises); NCP scripted at EZSP-frame level with frames from refs/ezspref.py",
        "callback frames carry the sequence number of the last response sent, never that of a pending command",
        "a reply arriving after its call timed out, a duplicate reply and a reply under a foreign sequence number may or may not be forwarded to callbacks (only 'completes no other call' is demanded)",
        "priority classes represented by getValue (keep-alive), getConfigurationValue (ordinary), sendUnicast (packet-send); command timeout 10 s as reference constant",
    ]
    if tier == "quick":
        c.run("checks.c06:CALLS", {"n": 2, "versions": [4, 5, 8, 14], "seqs": [0, 255]})
        c.run("checks.c06:CALLS", {"n": 3, "versions": [8], "seqs": [254]})
        c.run("checks.c06:CALLS", {"n": 3, "versions": [4], "seqs": [255], "behaviours": "basic", "cancel": True})
        c.run("checks.c06:CALLBACKS", {"ops": 5})
        c.run("checks.c06:LONGRUN", {"versions": [4, 8]})
        c.out_of_bounds += ["more than 3 concurrent callers", "start sequence numbers other than 0, 254, 255", "protocol versions other than 4, 5, 8, 14"]
    else:
        c.run("checks.c06:CALLS", {"n": 2, "versions": [4, 5, 8, 13, 14], "seqs": [0, 1, 254, 255]})
        c.run("checks.c06:CALLS", {"n": 3, "versions": [4, 14], "seqs": [254]})
        c.run("checks.c06:CALLS", {"n": 4, "versions": [8], "seqs": [253], "behaviours": "basic"})
        c.run("checks.c06:CALLS", {"n": 3, "versions": [8], "seqs": [255], "behaviours": "basic", "cancel": True})
        c.run("checks.c06:CALLBACKS", {"ops": 7})
        c.run("checks.c06:LONGRUN", {"versions": [4, 5, 8, 14], "count": 520})
        c.out_of_bounds += ["more than 4 concurrent callers", "start sequence numbers outside {0, 1, 253, 254, 255}"]
    return c.finish()


if __name__ == "__main__":
    sys.exit(main(sys.argv[1] if len(sys.argv) > 1 else "quick"))
