"""C01 - the ASH link delivers payloads exactly once, in order, over a faulty serial line.

The real AshProtocol (host) and the specification-conforming reference NCP (refs/ncpash.py) are joined by a line model on
one virtual-time loop.  Solver-decided: the fault of each of the first F frames in either direction {deliver, drop,
detectable corruption, duplicate, stall past the acknowledgement timeout}, the NCP's transmit window, the start frame
numbers (so the 3-bit numbers wrap), when the NCP's own traffic starts, and a caller-cancellation point."""
from __future__ import annotations

import asyncio
import sys

from refs import ashref as R
from refs.ncpash import RefNcp
from refs.stubs import FakeTransport
from symx import vloop
from symx.run import Check, Harness
from symx.shadow import real_ash

FAULTS = ("deliver", "drop", "corrupt", "duplicate", "stall")
LAT = 0.01
HOST_PAY = [bytes([0xA0 + k, 0x11, k]) for k in range(8)]
NCP_PAY = [bytes([0xB0 + k, 0x22, k]) for k in range(8)]
LONG = (129, 200, 130, 150)  # payload lengths of the long-payload runs (the data field may exceed 128 bytes)


def long_payloads(base):
    return [bytes([base + k]) + bytes((7 * i + k) & 0xFF for i in range(LONG[k % len(LONG)] - 1)) for k in range(4)]


class Up:
    def __init__(self):
        self.data = []
        self.resets = []

    def connection_made(self, tr):
        pass

    def data_received(self, d):
        self.data.append(bytes(d))

    def reset_received(self, code):
        self.resets.append(int(code))

    def error_received(self, code):
        self.resets.append(int(code))

    def connection_lost(self, exc):
        pass


class Line:
    """Two independent FIFO directions with a per-frame fault for the first F frames of each."""

    def __init__(self, ctx, loop, F, faults, stall_of):
        self.ctx, self.loop, self.F, self.faults = ctx, loop, F, faults
        self.count = {"h": 0, "n": 0}
        self.elig = {"h": 0, "n": 0}
        self.not_before = {"h": 0.0, "n": 0.0}
        self.sink = {}
        self.log = []
        self.stall_of = stall_of
        self.only = None  # optional predicate(direction, data) limiting which frames may be faulted

    def send(self, d, data):
        i = self.count[d]
        self.count[d] += 1
        fault = "deliver"
        if self.only is None or self.only(d, data):
            j = self.elig[d]
            self.elig[d] += 1
            if j < self.F:
                fault = self.faults[self.ctx.choice("%s%d" % (d, j), len(self.faults))]
        self.log.append((round(self.loop.time(), 4), d, i, fault, bytes(data).hex()))
        if fault == "drop":
            return
        delay = LAT
        out = bytes(data)
        if fault == "corrupt":
            b = bytearray(out)
            pos = 1 if b[0] == R.CAN else 0
            b[pos + 1 if len(b) > pos + 2 else pos] ^= 0x04  # inside the frame: detected by the CRC
            out = bytes(b)
        if fault == "stall":
            delay = self.stall_of() + 0.05
        when = max(self.loop.time() + delay, self.not_before[d] + 1e-4)
        self.not_before[d] = when
        self.loop.call_at(when, self.sink[d], out)
        if fault == "duplicate":
            self.not_before[d] = when + 1e-4
            self.loop.call_at(when + 1e-4, self.sink[d], out)


def subsequence_in_order(got, submitted):
    """got is an in-order, duplicate-free subsequence of submitted -> None, else description."""
    pos = -1
    for g in got:
        if g not in submitted:
            return "a payload of %d bytes (%s...) was never submitted" % (len(g), g.hex()[:16])
        i = submitted.index(g)
        if i <= pos:
            return "payload %s... delivered %s" % (g.hex()[:16], "twice" if got.count(g) > 1 else "out of order")
        pos = i
    return None


class Link(Harness):
    name = "c01_link"
    must_reach = ("all-delivered", "host-retransmitted", "ncp-retransmitted", "host-send-failed", "wrapped")
    functions = ("AshProtocol.send_data", "AshProtocol._send_data_frame", "AshProtocol.data_received", "AshProtocol.frame_received",
                 "AshProtocol.data_frame_received", "AshProtocol._handle_ack", "AshProtocol.nak_frame_received", "AshProtocol._write_frame")

    def must_reach_for(self, params):
        if params.get("cancel"):
            return ["cancelled", "all-delivered", "cancel-with-fault"]
        mr = ["all-delivered", "host-retransmitted"] + (["ncp-retransmitted"] if params.get("mn", 1) else []) + (["host-send-failed"] if params.get("F", 3) >= 5 else [])
        if any(tuple(s) != (0, 0) for s in params.get("starts", ((0, 0), (6, 7)))):
            mr.append("wrapped")
        return mr

    def run(self, ctx, mh=2, mn=1, F=3, windows=(1, 2), starts=((0, 0), (6, 7)), faults=FAULTS, cancel=False, ncp_start=(0.0,), dirs="hn", long=False):
        ash = real_ash()
        HOST_PAY, NCP_PAY = (long_payloads(0xA0), long_payloads(0xB0)) if long else (globals()["HOST_PAY"], globals()["NCP_PAY"])
        W = windows[ctx.choice("window", len(windows))]
        a, b = starts[ctx.choice("start", len(starts))]
        t_ncp = ncp_start[ctx.choice("ncp_start", len(ncp_start))]
        ck = cat = None
        if cancel:
            ck = ctx.choice("cancel_k", mh)
            cat = (0.005, 0.5, 1.7)[ctx.choice("cancel_at", 3)]

        async def main(loop):
            up = Up()
            host = ash.AshProtocol(up)
            tr = FakeTransport(loop, host)
            host.connection_made(tr)
            host._tx_seq, host._rx_seq = a, b
            line = Line(ctx, loop, F, faults, lambda: max(host._t_rx_ack, RefNcp.T_ACK))
            if dirs != "hn" and not cancel:
                line.only = lambda d, data: d in dirs
            ncp = RefNcp(loop, lambda data: line.send("n", data), window=W, tx=b, rx=a)
            line.sink["h"] = ncp.feed
            line.sink["n"] = host.data_received
            tr.on_write = lambda data: line.send("h", data)
            if cancel:
                # faults only on DATA frames of the send that gets cancelled: every other payload's fate must be unaffected
                def only(d, data):
                    if d != "h":
                        return False
                    try:
                        fr = R.decode(R.unstuff(list(data)[:-1]))
                    except R.Bad:
                        return False
                    return fr[0] == "DATA" and bytes(fr[4]) == HOST_PAY[ck]

                line.only = only
            outcomes = {}

            async def caller(k):
                try:
                    await host.send_data(HOST_PAY[k])
                    outcomes[k] = "ok"
                except asyncio.CancelledError:
                    outcomes[k] = "cancelled"
                except Exception as e:
                    outcomes[k] = type(e).__name__

            tasks = [loop.create_task(caller(k)) for k in range(mh)]
            for j in range(mn):
                loop.call_later(t_ncp + 1e-3 * j, ncp.submit, NCP_PAY[j])
            if cancel:
                loop.call_later(cat, tasks[ck].cancel)
            try:
                await asyncio.gather(*tasks, return_exceptions=True)
                await asyncio.sleep(40)  # retransmissions, stalled frames and the NCP's own retries run out
            except vloop.Deadlock:
                ctx.fail("a send never finished (loop idle forever)", "send-hangs")

            # ---------- monitors (independent of both implementations)
            h_sub = HOST_PAY[:mh]
            n_sub = list(ncp.submitted)
            bad = subsequence_in_order(ncp.delivered, h_sub)
            ctx.check(bad is None, "NCP upper layer: %s (got %r)" % (bad, [d.hex()[:12] for d in ncp.delivered]), "ncp-up-order")
            bad = subsequence_in_order(up.data, n_sub)
            ctx.check(bad is None, "host upper layer: %s (got %r)" % (bad, [d.hex()[:12] for d in up.data]), "host-up-order")
            for k in range(mh):
                o = outcomes.get(k)
                ctx.check(o is not None, "send %d has no outcome" % k, "no-outcome")
                n = ncp.delivered.count(HOST_PAY[k])
                if o == "ok":
                    ctx.check(n == 1, "send %d completed successfully but its payload was handed to the NCP's upper layer %d times" % (k, n), "ok-not-delivered" if n == 0 else "ok-duplicated")
                else:
                    ctx.check(n <= 1, "send %d ended with %s and its payload was delivered %d times" % (k, o, n), "failed-duplicated")
                    if o != "cancelled":
                        ctx.label("host-send-failed")
            for p in ncp.acked:
                n = up.data.count(p)
                ctx.check(n == 1, "the NCP saw payload %s acknowledged, the host's upper layer received it %d times" % (p.hex()[:16], n),
                          "acked-not-delivered" if n == 0 else "acked-duplicated")
            if cancel:
                ctx.label("cancelled")
                if any(e[3] != "deliver" for e in line.log):
                    ctx.label("cancel-with-fault")
                for k in range(mh):
                    if k != ck:
                        ctx.check(outcomes.get(k) == "ok" and ncp.delivered.count(HOST_PAY[k]) == 1,
                                  "caller %d was cancelled at %.3f s; send %d (never cancelled, no fault on its own frames) ended with %s and was delivered %d times"
                                  % (ck, cat, k, outcomes.get(k), ncp.delivered.count(HOST_PAY[k])), "cancel-hurts-others")
                for p in n_sub:
                    ctx.check(up.data.count(p) == 1, "cancelling a host caller lost or duplicated NCP payload %s" % p.hex(), "cancel-hurts-ncp-traffic")
            # labels
            if all(outcomes.get(k) == "ok" for k in range(mh)) and len(up.data) == len(n_sub):
                ctx.label("all-delivered")
            hd = [e for e in line.log if e[1] == "h"]
            if any(_is_retx(e[4]) for e in hd):
                ctx.label("host-retransmitted")
            if any(_is_retx(e[4]) for e in line.log if e[1] == "n"):
                ctx.label("ncp-retransmitted")
            if (a, b) != (0, 0):
                ctx.label("wrapped")
            ctx.observe(W, (a, b), [(e[1], e[2], e[3]) for e in line.log if e[3] != "deliver"], outcomes, [d.hex()[:12] for d in ncp.delivered], [d.hex()[:12] for d in up.data])

        vloop.run(main)


def _is_retx(hexs):
    try:
        bs = list(bytes.fromhex(hexs))
        if bs and bs[0] == R.CAN:
            bs = bs[1:]
        fr = R.decode(R.unstuff(bs[:-1]))
        return fr[0] == "DATA" and fr[2] == 1
    except Exception:
        return False


LINK = Link()


def main(tier):
    c = Check("C01", tier)
    c.assumptions += [
        "peer is the reference NCP refs/ncpash.py (UG101: in-sequence acceptance, duplicate suppression via the reTx flag, NAK on out-of-sequence / undecodable frames, go-back-N with window W, ERROR after 5 transmissions)",
        "line model: two independent FIFO directions, 10 ms latency, one solver-chosen fault for each of the first F frames per direction, later frames delivered; corruption flips one bit inside the frame (CRC-detectable); a stall delays delivery past the current acknowledgement timeout",
        "in the cancellation runs faults hit only the DATA frames of the send whose caller is cancelled, so that every other payload's expected fate is known (delivered exactly once)",
        "all host sends are submitted at t=0 in index order; host and NCP start with matching frame numbers",
    ]
    if tier == "quick":
        c.run("checks.c01:LINK", {"mh": 2, "mn": 1, "F": 3, "windows": [1, 2], "starts": [[6, 7]]})
        c.run("checks.c01:LINK", {"mh": 1, "mn": 2, "F": 3, "windows": [2], "starts": [[0, 0]], "faults": ["deliver", "drop", "corrupt"]})
        c.run("checks.c01:LINK", {"mh": 3, "mn": 1, "F": 2, "windows": [1], "starts": [[7, 6]], "cancel": True})
        c.run("checks.c01:LINK", {"mh": 2, "mn": 0, "F": 6, "windows": [1], "starts": [[7, 0]], "faults": ["deliver", "drop", "corrupt"], "dirs": "h"})
        c.run("checks.c01:LINK", {"mh": 2, "mn": 2, "F": 2, "windows": [2], "starts": [[0, 0]], "faults": ["deliver", "drop", "corrupt"], "long": True})
        c.out_of_bounds += ["fault sequences longer than 3 frames per direction, 6 in the single-direction run (later frames are delivered; no random continuation)", "more than 3 host / 2 NCP payloads",
                            "window 3 and other start numbers (thorough)", "NCP behaviours that are not specification-conforming"]
    else:
        c.run("checks.c01:LINK", {"mh": 2, "mn": 2, "F": 4, "windows": [2], "starts": [[6, 7]]}, wall_s=3000)
        c.run("checks.c01:LINK", {"mh": 2, "mn": 2, "F": 3, "windows": [1, 2, 3], "starts": [[0, 0], [6, 7]]})
        c.run("checks.c01:LINK", {"mh": 1, "mn": 3, "F": 4, "windows": [2, 3], "starts": [[5, 6]], "faults": ["deliver", "drop", "corrupt", "duplicate"]})
        c.run("checks.c01:LINK", {"mh": 3, "mn": 2, "F": 3, "windows": [1, 2], "starts": [[7, 6]], "cancel": True})
        c.run("checks.c01:LINK", {"mh": 2, "mn": 1, "F": 3, "windows": [2], "starts": [[3, 4]], "ncp_start": [0.0, 0.015, 1.62]})
        c.run("checks.c01:LINK", {"mh": 2, "mn": 0, "F": 7, "windows": [1], "starts": [[7, 0]], "faults": ["deliver", "drop", "corrupt", "duplicate"], "dirs": "h"})
        c.run("checks.c01:LINK", {"mh": 1, "mn": 1, "F": 6, "windows": [2], "starts": [[0, 7]], "faults": ["deliver", "drop", "corrupt"], "dirs": "n"})
        c.run("checks.c01:LINK", {"mh": 3, "mn": 3, "F": 3, "windows": [1, 3], "starts": [[6, 7]], "faults": ["deliver", "drop", "corrupt", "duplicate"], "long": True})
        c.out_of_bounds += ["fault sequences longer than 4 frames per direction", "more than 3 host / 3 NCP payloads"]
    return c.finish()


if __name__ == "__main__":
    sys.exit(main(sys.argv[1] if len(sys.argv) > 1 else "quick"))
