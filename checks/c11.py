"""C11 - the reset handshake completes only on the NCP's software-reset acknowledgement.

Real bellows.uart.Gateway on top of the real AshProtocol, a recording serial transport and a recording application
object, all on a virtual-time loop.  Frames from the NCP arrive as wire bytes produced by the independent reference
encoder.  Solver-decided: the scenario, the 8-bit reset / error code (realised where bellows builds the enum), the
frame numbers before the reset, the kind of connection loss, which waiters are pending."""
from __future__ import annotations

import asyncio
import sys

from refs import ashref as R
from refs.stubs import FakeTransport
from symx import vloop
from symx.run import Check, Harness
from symx.shadow import real_ash

RST_WIRE = bytes.fromhex("1ac038bc7e")
SW = R.SOFTWARE_RESET
EPS = 1e-6
KNOWN_ERR_SW = "error-frame-with-software-reset-code-completes-handshake"


class App:
    def __init__(self, loop):
        self.loop = loop
        self.ev = []

    def enter_failed_state(self, code):
        self.ev.append(("failed", self.loop.time(), code))

    def connection_lost(self, exc):
        self.ev.append(("lost", self.loop.time(), exc))

    def frame_received(self, data):
        self.ev.append(("frame", self.loop.time(), bytes(data)))


def wire(frame):
    return bytes(R.wire(frame))


def build(loop, tx=0, rx=0):
    import bellows.uart as uart

    ash = real_ash()
    app = App(loop)
    gw = uart.Gateway(app)
    p = ash.AshProtocol(gw)
    tr = FakeTransport(loop, p)
    p.connection_made(tr)
    p._tx_seq = tx
    p._rx_seq = rx
    return uart, ash, app, gw, p, tr


async def outcome(coro):
    try:
        await coro
        return ("ok", asyncio.get_running_loop().time(), None)
    except BaseException as e:  # noqa: cancellation is an outcome too
        if isinstance(e, (KeyboardInterrupt, SystemExit)) or type(e).__module__.startswith("symx"):
            raise
        return (type(e).__name__, asyncio.get_running_loop().time(), e)


SCENARIOS = ("rstack-in-time", "error-in-time", "nothing", "rstack-late", "rstack-twice", "rstack-before", "loss", "other-frames", "data-then-rstack", "send-in-flight", "rst-write-fails")


class Reset(Harness):
    name = "c11_reset"
    must_reach = ("completed", "timeout", "wrong-code", "error-frame", "late", "lost-clean", "lost-exc", "second-reset", "renumbered", "data-before-rstack", "send-in-flight", "write-failed", "loss-with-send-in-flight")
    functions = ("Gateway.reset", "Gateway.reset_received", "Gateway.connection_lost", "Gateway._reset_cleanup",
                 "AshProtocol.send_reset", "AshProtocol.rstack_frame_received", "AshProtocol.error_frame_received")

    def run(self, ctx, codes="all"):
        sc = SCENARIOS[ctx.choice("scenario", len(SCENARIOS))]
        code = None
        if sc in ("rstack-in-time", "error-in-time"):
            code = ctx.choice("code", 256)
            tx, rx = 5, 3  # the code axis and the counter axis are explored separately
        elif sc == "nothing":
            tx = ctx.choice("tx", 8)
            rx = ctx.choice("rx", 8)
        else:
            tx = (0, 7)[ctx.choice("tx", 2)]
            rx = (0, 6)[ctx.choice("rx", 2)]
        dfrm = 0
        if sc == "data-then-rstack":
            dfrm = (0, rx, (rx + 1) % 8)[ctx.choice("dfrm", 3)]
        loss_exc = None
        loss_at = 0
        if sc == "loss":
            loss_exc = (None, "exc", "eof")[ctx.choice("loss_kind", 3)]
            loss_at = ctx.choice("loss_at", 2)
        loss_send = sc == "loss" and ctx.flag("send_in_flight")

        async def main(loop):
            uart, ash, app, gw, p, tr = build(loop, tx, rx)
            T = uart.RESET_TIMEOUT
            if sc == "rstack-before":
                p.data_received(wire(R.rstack_frame(SW)))
                await asyncio.sleep(0.01)
                ctx.check(not [e for e in app.ev if e[0] == "failed"], "a software-reset RSTACK without a waiter was treated as a failure", "unsolicited-sw-rstack")
            old_send = None
            if sc == "send-in-flight":
                # a DATA frame of the host is on the wire, unacknowledged (hung NCP), when the reset is requested
                old_send = loop.create_task(outcome(p.send_data(b"\x0a\x0b")))
                await asyncio.sleep(0.05)
            if sc == "rst-write-fails":
                # the port rejects one write (transient error): the request fails; the next request is a full request again
                real_write = tr.write
                state = {"n": 0}

                def flaky(data):
                    state["n"] += 1
                    if state["n"] == 1:
                        raise OSError("write failed")
                    real_write(data)

                tr.write = flaky
                r0 = await outcome(gw.reset())
                ctx.check(r0[0] not in ("ok", "TimeoutError", "CancelledError"), "reset() whose RST write failed ended with %s" % r0[0], "write-failure-outcome")
                ctx.label("write-failed")
            t0 = loop.time()
            w0 = len(tr.writes)
            task = loop.create_task(outcome(gw.reset()))
            await asyncio.sleep(0)
            ctx.check(len(tr.writes) == w0 + 1 and bytes(tr.writes[w0][1]) == RST_WIRE,
                      "reset request wrote %r instead of CANCEL + RST frame" % [bytes(w[1]).hex() for w in tr.writes[w0:]], "rst-bytes")
            expect_ok = False
            lost = None
            if sc == "rstack-in-time":
                loop.call_later(0.2, p.data_received, wire(R.rstack_frame(code)))
                expect_ok = code == SW
            elif sc == "error-in-time":
                loop.call_later(0.2, p.data_received, wire(R.error_frame(code)))
            elif sc == "rstack-late":
                loop.call_later(T + 0.2, p.data_received, wire(R.rstack_frame(SW)))
            elif sc == "rstack-twice":
                loop.call_later(0.2, p.data_received, wire(R.rstack_frame(SW)))
                loop.call_later(0.3, p.data_received, wire(R.rstack_frame(SW)))
                expect_ok = True
            elif sc == "rstack-before":
                pass  # the early RSTACK must not satisfy this request
            elif sc in ("send-in-flight", "rst-write-fails"):
                loop.call_later(0.2, p.data_received, wire(R.rstack_frame(SW)))
                expect_ok = True
            elif sc == "data-then-rstack":
                # a DATA frame the NCP had queued before it saw the RST arrives first (own callback), then the RSTACK
                loop.call_later(0.1, p.data_received, wire(R.data_frame(dfrm, 0, 0, [4, 5, 6])))
                loop.call_later(0.2, p.data_received, wire(R.rstack_frame(SW)))
                expect_ok = True
            elif sc == "other-frames":
                loop.call_later(0.1, p.data_received, wire(R.ack_frame(1)))
                loop.call_later(0.2, p.data_received, wire(R.nak_frame(0)))
                loop.call_later(0.3, p.data_received, wire(R.rst_frame()))
                loop.call_later(0.4, p.data_received, wire(R.data_frame(rx, 0, 0, [1, 2, 3])))
            elif sc == "loss":
                if loss_send:
                    # a DATA frame of the host is awaiting its acknowledgement when the connection goes
                    ctx.label("loss-with-send-in-flight")
                    loop.create_task(outcome(p.send_data(b"\x0c\x0d")))
                lost = {None: None, "exc": OSError("port gone"), "eof": "eof"}[loss_exc]
                when = 0.2 if loss_at == 0 else T - 0.001
                if lost == "eof":
                    loop.call_later(when, p.eof_received)
                else:
                    loop.call_later(when, p.connection_lost, lost)
            try:
                res = await task
            except vloop.Deadlock:
                ctx.fail("reset() never finished in scenario %s (waiter left pending)" % sc, "reset-hangs:" + sc)
            kind, t_end, exc = res
            fails = [e for e in app.ev if e[0] == "failed"]
            if sc == "loss":
                ctx.label("lost-clean" if lost is None else "lost-exc")
                ctx.check(kind not in ("ok", "TimeoutError", "CancelledError"),
                          "connection lost while a reset was pending: reset() ended with %s instead of the connection error" % kind, "loss-not-released")
                if isinstance(lost, Exception):
                    ctx.check(exc is lost, "reset() raised %r instead of the connection error" % exc, "loss-wrong-error")
                else:
                    ctx.check(isinstance(exc, ConnectionError), "reset() raised %r instead of a connection error" % exc, "loss-wrong-error")
                ctx.check(abs(t_end - (t0 + (0.2 if loss_at == 0 else T - 0.001))) < EPS, "reset() was not released at the moment of the loss", "loss-late-release")
                await asyncio.sleep(T + 1)
                ctx.observe(sc, kind, round(t_end - t0, 4), loss_exc)
                return
            if sc == "data-then-rstack":
                ctx.label("data-before-rstack")
            if expect_ok:
                ctx.label("completed")
                ctx.check(kind == "ok", "software-reset RSTACK arrived in time but reset() ended with %s" % kind, "sw-rstack-not-completing")
                ctx.check(abs(t_end - (t0 + 0.2)) < EPS, "reset() completed at +%.3f s, RSTACK arrived at +0.2 s" % (t_end - t0), "completion-time")
                ctx.check(not fails, "software-reset RSTACK reported as a failure", "sw-rstack-failure")
            else:
                sig = "completed-without-sw-rstack" if kind == "ok" else "no-timeout:" + kind
                if kind == "ok" and sc == "error-in-time" and code == SW:
                    sig = KNOWN_ERR_SW
                ctx.check(kind == "TimeoutError", "no software-reset RSTACK while waiting (%s%s), yet reset() ended with %s"
                          % (sc, "" if code is None else " code 0x%02X" % code, kind), sig)
                ctx.check(abs(t_end - (t0 + T)) < EPS, "reset() gave up at +%.3f s instead of the reset timeout" % (t_end - t0), "timeout-time")
                ctx.label("timeout")
            if sc in ("rstack-in-time", "error-in-time") and not expect_ok:
                ctx.label("wrong-code" if sc == "rstack-in-time" else "error-frame")
                ctx.check(len(fails) == 1, "%s with code 0x%02X reported as NCP failure %d times" % (sc, code, len(fails)), "failure-report-count")
                if fails:
                    ctx.check(int(fails[0][2]) == code, "failure reported with code %r, frame carried 0x%02X" % (fails[0][2], code), "failure-code")
            if sc in ("nothing", "rstack-late", "rstack-twice", "rstack-before", "other-frames", "data-then-rstack", "send-in-flight", "rst-write-fails"):
                ctx.check(not fails, "NCP failure reported in scenario %s" % sc, "spurious-failure")
            if sc == "rstack-late":
                ctx.label("late")
                await asyncio.sleep(0.5)  # the late RSTACK arrives with nobody waiting
                ctx.check(not [e for e in app.ev if e[0] == "failed"], "late software-reset RSTACK treated as a failure", "late-rstack-failure")

            # a further reset request must be a full request of its own
            if not expect_ok and sc != "error-in-time" and not (sc == "rstack-in-time"):
                ctx.label("second-reset")
                t1 = loop.time()
                w1 = len(tr.writes)
                task2 = loop.create_task(outcome(gw.reset()))
                await asyncio.sleep(0)
                ctx.check(len(tr.writes) == w1 + 1 and bytes(tr.writes[w1][1]) == RST_WIRE,
                          "second reset request (after a timed-out one) wrote %r" % [bytes(w[1]).hex() for w in tr.writes[w1:]], "second-rst-bytes")
                loop.call_later(0.2, p.data_received, wire(R.rstack_frame(SW)))
                try:
                    k2, t2, _ = await task2
                except vloop.Deadlock:
                    ctx.fail("second reset() never finished", "second-reset-hangs")
                ctx.check(k2 == "ok" and abs(t2 - (t1 + 0.2)) < EPS, "second reset() ended with %s at +%.3f" % (k2, t2 - t1), "second-reset-outcome")
                expect_ok = True
            if old_send is not None:
                ctx.label("send-in-flight")
                # the frame that was in flight is retransmitted when its timer expires; the NCP acknowledges it then
                def ack_old(data, real=tr.on_write):
                    bs = list(data)
                    try:
                        fr = R.decode(R.unstuff(bs[:-1]))
                    except R.Bad:
                        return
                    if fr[0] == "DATA" and bytes(fr[4]) == b"\x0a\x0b":
                        loop.call_soon(p.data_received, wire(R.ack_frame((fr[1] + 1) % 8)))

                tr.on_write = ack_old
                try:
                    ro = await asyncio.wait_for(old_send, 30)
                except Exception:
                    ro = ("hung", 0, None)
                tr.on_write = None
                ctx.check(ro[0] in ("ok", "NcpFailure", "TimeoutError", "NotAcked", "RuntimeError"), "the send that was in flight ended with %s" % ro[0], "old-send-outcome")
            if expect_ok:
                # both directions restart at zero
                ctx.label("renumbered")
                w2 = len(tr.writes)
                st = loop.create_task(outcome(p.send_data(b"\x01\x02")))
                await asyncio.sleep(0)
                ctx.check(len(tr.writes) == w2 + 1, "no DATA frame written after the handshake", "no-data-after-reset")
                fr = R.decode(R.unstuff(list(tr.writes[w2][1])[:-1]))
                ctx.check(fr[0] == "DATA" and fr[1] == 0 and fr[3] == 0,
                          "first DATA frame after the handshake carries frmNum %s / ackNum %s" % (fr[1], fr[3]), "restart-numbers")
                n_up = len([e for e in app.ev if e[0] == "frame"])
                p.data_received(wire(R.data_frame(0, 0, 1, [9, 8, 7])))
                ups = [e for e in app.ev if e[0] == "frame"]
                ctx.check(len(ups) == n_up + 1 and ups[-1][2] == bytes([9, 8, 7]), "DATA frame 0 from the NCP was not accepted after the handshake", "rx-restart")
                r3 = await st
                ctx.check(r3[0] == "ok", "send after the handshake ended with %s" % r3[0], "send-after-reset")
            ctx.observe(sc, kind, round(t_end - t0, 4), code, [int(e[2]) if e[0] == "failed" else e[0] for e in app.ev])

        vloop.run(main)


class Waiters(Harness):
    """Start-up waiter, alone or together with a reset waiter: completion and release on loss."""

    name = "c11_waiters"
    must_reach = ("startup-completed", "startup-wrong-code", "both", "startup-lost")
    functions = ("Gateway.wait_for_startup_reset", "Gateway.reset_received", "Gateway.connection_lost", "Gateway.eof_received")

    def run(self, ctx):
        both = ctx.flag("both")
        ev = ("rstack", "error", "loss-clean", "loss-exc", "eof")[ctx.choice("event", 5)]
        code = ctx.choice("code", 256) if ev in ("rstack", "error") else None
        if both and code is not None:
            ctx.require(code in (SW, 0x02, 0x00, 0x51, 0xFF))

        async def main(loop):
            uart, ash, app, gw, p, tr = build(loop)
            ts = loop.create_task(outcome(gw.wait_for_startup_reset()))
            await asyncio.sleep(0)
            tr_ = None
            if both:
                ctx.label("both")
                tr_ = loop.create_task(outcome(gw.reset()))
                await asyncio.sleep(0)
            exc = OSError("gone")
            if ev == "rstack":
                loop.call_later(0.2, p.data_received, wire(R.rstack_frame(code)))
            elif ev == "error":
                loop.call_later(0.2, p.data_received, wire(R.error_frame(code)))
            elif ev == "loss-clean":
                loop.call_later(0.2, p.connection_lost, None)
            elif ev == "loss-exc":
                loop.call_later(0.2, p.connection_lost, exc)
            else:
                loop.call_later(0.2, p.eof_received)
            await asyncio.sleep(0.3)
            fails = [e for e in app.ev if e[0] == "failed"]
            if ev in ("rstack", "error"):
                sw = ev == "rstack" and code == SW
                if not sw:
                    ctx.label("startup-wrong-code")
                    known = ev == "error" and code == SW
                    ctx.check(not ts.done(), "start-up waiter completed by %s code 0x%02X" % (ev, code), KNOWN_ERR_SW if known else "startup-completed-wrong")
                    ctx.check(tr_ is None or not tr_.done(), "reset waiter completed by %s code 0x%02X" % (ev, code), KNOWN_ERR_SW if known else "reset-completed-wrong")
                    ctx.check(len(fails) == 1 and int(fails[0][2]) == code, "%s code 0x%02X not reported as failure exactly once with its code" % (ev, code), "failure-report")
                else:
                    ctx.check(not fails, "software-reset RSTACK reported as failure", "sw-rstack-failure")
                    if both:
                        # exactly one RSTACK: it belongs to the requested reset
                        ctx.check(tr_.done() and tr_.result()[0] == "ok", "requested reset not completed by the software-reset RSTACK", "sw-rstack-not-completing")
                    else:
                        ctx.label("startup-completed")
                        ctx.check(ts.done() and ts.result()[0] == "ok", "start-up waiter not completed by the software-reset RSTACK", "startup-not-completed")
            else:
                ctx.label("startup-lost")
                for name, tk in (("start-up waiter", ts), ("reset waiter", tr_)):
                    if tk is None:
                        continue
                    ctx.check(tk.done(), "%s left pending after the connection was lost (%s)" % (name, ev), "loss-not-released:" + ev)
                    if tk.done():
                        k, _, e = tk.result()
                        ctx.check(k not in ("ok", "TimeoutError", "CancelledError") and (e is exc if ev == "loss-exc" else isinstance(e, ConnectionError)),
                                  "%s ended with %s instead of the connection error" % (name, k), "loss-wrong-error")
                lost = [e for e in app.ev if e[0] == "lost"]
                ctx.check(len(lost) == (0 if ev == "loss-clean" else 1), "application told about the loss %d times (%s)" % (len(lost), ev), "loss-report")
            ctx.observe(both, ev, code, ts.done(), tr_.done() if tr_ else None)
            for tk in (ts, tr_):
                if tk is not None and not tk.done():
                    tk.cancel()

        vloop.run(main)


RESET = Reset()
WAITERS = Waiters()


def main(tier):
    c = Check("C11", tier)
    c.assumptions += [
        "NCP frames are produced by the independent reference encoder and delivered through AshProtocol.data_received",
        "application object is a recorder (enter_failed_state / connection_lost / frame_received)",
        "virtual-time loop; RESET_TIMEOUT read from bellows.uart only to schedule 'late' arrivals - the expected instant is checked against it",
        "the expected request bytes 1A C0 38 BC 7E are the literal from UG101",
    ]
    c.run("checks.c11:RESET", {})
    c.run("checks.c11:WAITERS", {})
    c.out_of_bounds += ["more than two consecutive reset requests", "RSTACK/ERROR frames with a version byte other than 2 (rejected by the parser, C03)",
                        "loss instants other than early / just before the timeout"]
    return c.finish()


if __name__ == "__main__":
    sys.exit(main(sys.argv[1] if len(sys.argv) > 1 else "quick"))
