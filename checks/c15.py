"""C15 - host view of the multicast table matches the NCP and never leaks slots.

Real bellows.multicast.Multicast against a command-level model of the NCP's multicast table.  Solver-decided:
table size, initial table content (each group at most once), the operation sequence over
{subscribe(g), unsubscribe(g), start-up}, and the answer to every table write
{success, rejection, timeout with the write not applied, timeout with the write applied}."""
from __future__ import annotations

import asyncio
import sys

from symx import vloop
from symx.run import Check, Harness

GROUPS = (0x0101, 0x0202, 0x0303)


class Ncp:
    """Command-level NCP: configuration value + multicast table."""

    def __init__(self, t, table, eps=None):
        self.t = t
        self.table = list(table)  # per index: group id or None (endpoint 0)
        self.eps = list(eps) if eps is not None else [1] * len(self.table)  # endpoint of each programmed entry (any non-zero value)
        self.writes = []
        self.answers = []  # scripted answers for the next writes
        self.reject_status = t.EmberStatus.INDEX_OUT_OF_RANGE

    async def getConfigurationValue(self, cfg):
        assert cfg == self.t.EzspConfigId.CONFIG_MULTICAST_TABLE_SIZE
        return self.t.EmberStatus.SUCCESS, len(self.table)

    async def getMulticastTableEntry(self, i):
        t = self.t
        e = t.EmberMulticastTableEntry()
        g = self.table[i]
        e.multicastId = t.EmberMulticastId(g if g is not None else 0)
        e.endpoint = t.uint8_t(self.eps[i] if g is not None else 0)
        e.networkIndex = t.uint8_t(0)
        return t.EmberStatus.SUCCESS, e

    async def setMulticastTableEntry(self, idx, entry):
        t = self.t
        await asyncio.sleep(0)  # a command round trip always suspends the caller
        ans = self.answers.pop(0) if self.answers else "ok"
        self.writes.append((idx, int(entry.multicastId), int(entry.endpoint), ans))
        if ans in ("ok", "timeout-applied") and 0 <= idx < len(self.table):
            self.table[idx] = int(entry.multicastId) if int(entry.endpoint) != 0 else None
            self.eps[idx] = int(entry.endpoint) or 1
        if ans.startswith("timeout"):
            raise asyncio.TimeoutError()
        if ans == "reject":
            return (self.reject_status,)
        return (t.EmberStatus.SUCCESS,)

    def programmed(self):
        return {g for g in self.table if g is not None}


class Ep:
    def __init__(self, member_of):
        self.member_of = member_of


class Coord:
    def __init__(self, groups):
        self.endpoints = {0: Ep({}), 1: Ep({g: None for g in groups})}


ENDPOINTS = (1, 2, 0xF2, 0xFF)  # "programmed" = any non-zero endpoint


def initial_tables(ctx, size, ngroups, eps=None):
    tab, used = [], set()
    for i in range(size):
        opts = [None] + [g for g in GROUPS[:ngroups] if g not in used]
        g = opts[ctx.choice("init%d" % i, len(opts))]
        if g is not None:
            used.add(g)
            if eps is not None:
                eps.append(ENDPOINTS[ctx.choice("ep%d" % i, len(ENDPOINTS))] if i == 0 else 1)
        elif eps is not None:
            eps.append(1)
        tab.append(g)
    return tab


class Seq(Harness):
    name = "c15_seq"
    must_reach = ("sub-ok", "sub-rejected", "sub-timeout", "unsub-ok", "unsub-rejected", "unsub-timeout", "resub-nowrite", "full",
                  "startup-again", "startup-with-groups")
    functions = ("Multicast._initialize", "Multicast.startup", "Multicast.subscribe", "Multicast.unsubscribe")

    def must_reach_for(self, params):
        mr = [m for m in self.must_reach if m != "startup-with-groups" or params.get("boot")]
        if params.get("L", 3) < 2:
            mr = [m for m in mr if m in ("startup-with-groups", "sub-ok", "unsub-ok")]
        return mr

    def run(self, ctx, L=3, max_size=3, ngroups=2, applied=False, boot=False):
        import bellows.types as t
        from bellows.multicast import Multicast

        size = ctx.choice("size", max_size + 1)
        eps = []
        table = initial_tables(ctx, size, ngroups, eps)
        boot_groups = ctx.choice("boot_groups", 4) if boot else 0  # group memberships the coordinator device remembers at start-up
        ok_status = t.sl_Status.OK

        async def main(loop):
            ncp = Ncp(t, table, eps)
            m = Multicast(ncp)
            coord = Coord(())
            if boot_groups == 1:
                coord = Coord((GROUPS[0],))
            elif boot_groups == 2:  # the same group stored on two endpoints of the coordinator
                coord = Coord((GROUPS[0],))
                coord.endpoints[2] = Ep({GROUPS[0]: None})
            elif boot_groups == 3:
                coord = Coord((GROUPS[0],))
                coord.endpoints[2] = Ep({GROUPS[1]: None})
            free_before = len([x for x in table if x is None])
            await m.startup(coord)
            if boot_groups:
                ctx.label("startup-with-groups")
                want = {g for ep in coord.endpoints.values() for g in ep.member_of}
                progd = [x for x in ncp.table if x is not None]
                ctx.check(len(progd) == len(set(progd)), "start-up programmed a group into two table entries: %r" % (ncp.table,), "startup-duplicate-entry")
                new = want - {x for x in table if x is not None}
                ctx.check(len(ncp.writes) == min(len(new), free_before), "start-up with stored groups %r wrote %d table entries (free before: %d)" % (sorted(want), len(ncp.writes), free_before),
                          "startup-write-count")
            ncp.writes.clear()
            tainted = False  # an applied-but-timed-out write makes the mirror relation unknowable for the host

            def view():
                return set(int(g) for g in m._multicast), set(m._available)

            def invariants(step):
                sub, free = view()
                used_idx = [idx for (_e, idx) in m._multicast.values()]
                ctx.check(len(set(used_idx)) == len(used_idx), "step %s: one table index serves two groups" % step, "index-shared")
                ctx.check(not (set(used_idx) & free), "step %s: a table index is both free and used" % step, "index-free-and-used")
                ctx.check((set(used_idx) | free) == set(range(size)),
                          "step %s: table indices %s are neither free nor used (or out of range)" % (step, sorted(set(range(size)) ^ (set(used_idx) | free))),
                          "index-lost")
                if not tainted:
                    ctx.check(sub == ncp.programmed(),
                              "step %s: host reports %s subscribed, NCP table has %s programmed" % (step, sorted(sub), sorted(ncp.programmed())),
                              "mirror")

            invariants("start-up")
            for k in range(L):
                nops = 2 * ngroups + 1
                op = ctx.choice("op%d" % k, nops)
                sub0, free0 = view()
                ncp.writes.clear()
                if op == 2 * ngroups:
                    # a further start-up (e.g. after a controller restart): rescans the table
                    prog = [x for x in ncp.table if x is not None]
                    # the property quantifies over tables in which each group appears at most once; an
                    # applied-but-timed-out write followed by a retry can program a group twice: outside the domain
                    ctx.require(len(prog) == len(set(prog)))
                    ctx.label("startup-again")
                    await m.startup(Coord(()))
                    tainted = False  # the host has re-read the table: the mirror relation is demanded again
                    invariants("%d (start-up)" % k)
                    ctx.observe(k, "startup", sorted(view()[0]))
                    continue
                g = GROUPS[op // 2]
                is_sub = op % 2 == 0
                will_write = (g not in sub0 and free0) if is_sub else (g in sub0)
                ans = "ok"
                if will_write:
                    kinds = ["ok", "reject", "timeout"] + (["timeout-applied"] if applied else [])
                    ans = kinds[ctx.choice("ans%d" % k, len(kinds))]
                    ncp.answers = [ans]
                raised = None
                try:
                    st = await (m.subscribe(g) if is_sub else m.unsubscribe(g))
                except asyncio.TimeoutError as e:
                    raised = e
                if ans == "timeout-applied":
                    tainted = True
                sub1, free1 = view()
                name = ("subscribe" if is_sub else "unsubscribe") + "(0x%04X)" % g
                # number of table writes
                ctx.check(len(ncp.writes) == (1 if will_write else 0),
                          "step %d %s: %d table writes, expected %d" % (k, name, len(ncp.writes), 1 if will_write else 0), "write-count")
                if will_write and ncp.writes:
                    idx, wg, wep, _ = ncp.writes[0]
                    ctx.check(wg == g and wep == (1 if is_sub else 0), "step %d %s: wrote group 0x%04X endpoint %d" % (k, name, wg, wep), "write-content")
                    if is_sub:
                        ctx.check(idx in free0, "step %d %s: wrote to index %d which was not free" % (k, name, idx), "write-nonfree-index")
                if not will_write:
                    ctx.check(raised is None, "step %d %s raised without a write" % (k, name), "raise-nowrite")
                    if is_sub and g in sub0:
                        ctx.label("resub-nowrite")
                        ctx.check(t.sl_Status.from_ember_status(st) == ok_status, "step %d: re-subscribing reported %r" % (k, st), "resub-status")
                    else:
                        if is_sub:
                            ctx.label("full")
                        ctx.check(t.sl_Status.from_ember_status(st) != ok_status,
                                  "step %d %s reported success although nothing could be done" % (k, name), "nowrite-success")
                    ctx.check(len(free1) == len(free0), "step %d %s: free-index count changed without a write" % (k, name), "free-count-nowrite")
                elif ans == "ok":
                    ctx.label("sub-ok" if is_sub else "unsub-ok")
                    ctx.check(raised is None and t.sl_Status.from_ember_status(st) == ok_status,
                              "step %d %s: accepted write reported as %r" % (k, name, raised or st), "ok-status")
                    ctx.check(len(free1) == len(free0) + (-1 if is_sub else 1), "step %d %s: free-index count wrong after success" % (k, name), "free-count-ok")
                else:
                    if ans == "reject":
                        ctx.label("sub-rejected" if is_sub else "unsub-rejected")
                        ctx.check(raised is None and t.sl_Status.from_ember_status(st) != ok_status,
                                  "step %d %s: rejected write reported as %r" % (k, name, raised or st), "reject-status")
                    else:
                        ctx.label("sub-timeout" if is_sub else "unsub-timeout")
                        ctx.check(raised is not None, "step %d %s: command timeout swallowed" % (k, name), "timeout-swallowed")
                    ctx.check(len(free1) == len(free0),
                              "step %d %s failed (%s) and changed the number of free indices from %d to %d" % (k, name, ans, len(free0), len(free1)),
                              "free-count-failed-" + ("timeout" if ans.startswith("timeout") else "reject") + ("-sub" if is_sub else "-unsub"))
                invariants("%d %s" % (k, name))
                ctx.observe(k, name, ans, repr(raised) if raised else int(t.sl_Status.from_ember_status(st)), sorted(sub1), sorted(free1))

            # closing probe through the public API only: every free NCP slot must be obtainable, and no more
            if not tainted:
                free_ncp = len([x for x in ncp.table if x is None])
                sub, _ = view()
                ncp.answers = []
                got = 0
                for j in range(size + 1):
                    st = await m.subscribe(0x4000 + j)
                    if t.sl_Status.from_ember_status(st) == ok_status:
                        got += 1
                ctx.check(got == free_ncp, "closing probe: %d new groups could be subscribed but the NCP table has %d free entries" % (got, free_ncp),
                          "probe-free-slots")
            return None

        vloop.run(main)


class EndpointApi(Harness):
    """The coordinator endpoint's add_to_group / remove_from_group on top of the real Multicast: what the host reports as
    subscribed at this level is the endpoint's group membership."""

    name = "c15_endpoint"
    must_reach = ("added", "add-refused", "removed", "remove-refused", "remove-timeout")
    functions = ("EZSPEndpoint.add_to_group", "EZSPEndpoint.remove_from_group", "Multicast.subscribe", "Multicast.unsubscribe")

    def run(self, ctx, L=3):
        import zigpy.device
        import zigpy.zdo.types as zdo_t

        import bellows.types as t
        from bellows.multicast import Multicast
        from bellows.zigbee.device import EZSPEndpoint
        from refs import appshim

        size = 1 + ctx.choice("size", 2)

        async def main(loop):
            ncp = Ncp(t, [None] * size)
            app = appshim.make_app()
            app._multicast = Multicast(ncp)
            await app._multicast.startup(Coord(()))
            dev = zigpy.device.Device(app, t.EUI64.convert("00:11:22:33:44:55:66:77"), 0x0000)
            desc = zdo_t.SimpleDescriptor(endpoint=1, profile=260, device_type=5, device_version=0, input_clusters=[], output_clusters=[])
            ep = EZSPEndpoint(dev, 1, desc)
            for k in range(L):
                g = GROUPS[ctx.choice("g%d" % k, 2)]
                add = ctx.flag("add%d" % k)
                member0 = set(int(x) for x in ep.member_of)
                will_write = (g not in member0 and len(ncp.programmed()) < size) if add else (g in member0)
                ans = "ok"
                if will_write:
                    kinds = ("ok", "reject-fatal", "reject-index", "reject-full", "timeout")
                    ans = kinds[ctx.choice("ans%d" % k, len(kinds))]
                    ncp.reject_status = {"reject-fatal": t.EmberStatus.ERR_FATAL, "reject-index": t.EmberStatus.INDEX_OUT_OF_RANGE,
                                         "reject-full": t.EmberStatus.TABLE_FULL}.get(ans, t.EmberStatus.ERR_FATAL)
                    ncp.answers = ["reject" if ans.startswith("reject") else ans]
                raised = None
                try:
                    await (ep.add_to_group(g) if add else ep.remove_from_group(g))
                except (ValueError, asyncio.TimeoutError) as e:
                    raised = e
                name = "%s(0x%04X) answered %s" % ("add_to_group" if add else "remove_from_group", g, ans)
                member1 = set(int(x) for x in ep.member_of)
                if will_write and ans == "ok":
                    ctx.label("added" if add else "removed")
                    ctx.check(raised is None, "%s raised %r" % (name, raised), "endpoint-ok-raises")
                elif will_write:
                    ctx.label(("add-refused" if add else ("remove-timeout" if ans == "timeout" else "remove-refused")))
                    ctx.check(raised is not None, "%s: the table write failed but the call reported success" % name, "endpoint-failure-swallowed")
                    ctx.check(member1 == member0, "%s: membership changed from %r to %r although the table write failed" % (name, sorted(member0), sorted(member1)), "endpoint-membership-on-failure")
                ctx.check(member1 == ncp.programmed(), "after %s the endpoint reports groups %r, the NCP table has %r programmed" % (name, sorted(member1), sorted(ncp.programmed())),
                          "endpoint-mirror")
                ctx.observe(k, name, sorted(member1))

        vloop.run(main)


SEQ = Seq()
ENDPOINT = EndpointApi()


def main(tier):
    c = Check("C15", tier)
    c.assumptions += [
        "NCP modelled at command level: getConfigurationValue / getMulticastTableEntry / setMulticastTableEntry over a table with the stated answers",
        "a rejected write and a timed-out (request lost) write do not change the NCP table; in the 'timeout-applied' variant the write is applied and the "
        "mirror relation is not demanded afterwards (only slot accounting), because the host cannot know",
        "group universe of 2-3 ids; initial tables contain each group at most once; the first initial entry carries endpoint 1, 2, 0xF2 or 0xFF (programmed = non-zero endpoint), the others endpoint 1",
        "host view read from the anchored state Multicast._multicast/_available, plus a closing probe through subscribe() only",
    ]
    if tier == "quick":
        c.run("checks.c15:SEQ", {"L": 3, "max_size": 2, "ngroups": 2, "applied": True})
        c.run("checks.c15:SEQ", {"L": 1, "max_size": 3, "ngroups": 2, "applied": False, "boot": True})
        c.run("checks.c15:ENDPOINT", {"L": 3})
        c.out_of_bounds += ["sequences longer than 3 operations, tables larger than 2, more than 2 groups (thorough: 4 / 4 / 3)", "table read failures during start-up"]
    else:
        c.run("checks.c15:SEQ", {"L": 4, "max_size": 3, "ngroups": 2, "applied": True})
        c.run("checks.c15:SEQ", {"L": 3, "max_size": 4, "ngroups": 3, "applied": False})
        c.run("checks.c15:SEQ", {"L": 2, "max_size": 3, "ngroups": 2, "applied": False, "boot": True})
        c.run("checks.c15:ENDPOINT", {"L": 4})
        c.out_of_bounds += ["sequences longer than 4 operations", "table read failures during start-up"]
    return c.finish()


if __name__ == "__main__":
    sys.exit(main(sys.argv[1] if len(sys.argv) > 1 else "quick"))
