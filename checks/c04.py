"""C04 - host receiver never hands a frame up twice or out of order, whatever arrives.

Shadow-compiled bellows/ash.py; frames injected as objects through frame_received() and as wire bytes
(reference encoder) through data_received(); the reference receiver automaton runs in lock-step."""
from __future__ import annotations

import sys

from refs import ashref as R
from refs.stubs import FakeTransport, Upper
from symx.core import sand, simplies, site, snot, sor
from symx.run import Check, Harness

KINDS = ("DATA", "ACK", "NAK", "RST", "RSTACK", "ERROR")


def mk(ctx, rx, tx, failed=False):
    ash = ctx.ash
    up = Upper()
    p = ash.AshProtocol(up)
    tr = FakeTransport()
    p.connection_made(tr)
    up.events.clear()
    p._rx_seq = rx
    p._tx_seq = tx
    if failed:
        p._ncp_state = ash.NcpState.FAILED
    return ash, p, tr, up


def sym_frame(ctx, i, payload_len):
    """Symbolic frame description (kind is realised, all fields stay symbolic)."""
    k = KINDS[ctx.choice("kind%d" % i, len(KINDS))]
    f = {"kind": k}
    if k == "DATA":
        f.update(frm=ctx.int("frm%d" % i, 0, 7), retx=ctx.int("retx%d" % i, 0, 1), ack=ctx.int("ack%d" % i, 0, 7),
                 payload=[ctx.byte("pl%d_%d" % (i, j)) for j in range(payload_len)])
    elif k in ("ACK", "NAK"):
        f.update(res=ctx.int("res%d" % i, 0, 1), nrdy=ctx.int("nrdy%d" % i, 0, 1), ack=ctx.int("ack%d" % i, 0, 7))
    elif k in ("RSTACK", "ERROR"):
        f.update(code=ctx.byte("code%d" % i))
    return f


def inject(ctx, ash, p, f, via):
    k = f["kind"]
    if via == "wire":
        if k == "DATA":
            b = R.data_frame(f["frm"], f["retx"], f["ack"], f["payload"])
        elif k == "ACK":
            b = R.ack_frame(f["ack"], f["nrdy"], f["res"])
        elif k == "NAK":
            b = R.nak_frame(f["ack"], f["nrdy"], f["res"])
        elif k == "RST":
            b = R.rst_frame()
        elif k == "RSTACK":
            b = R.rstack_frame(f["code"])
        else:
            b = R.error_frame(f["code"])
        p.data_received(ctx.mkbytes(R.wire(b)))
        return
    if k == "DATA":
        fr = ash.DataFrame(frm_num=f["frm"], re_tx=f["retx"], ack_num=f["ack"], ezsp_frame=ctx.mkbytes(f["payload"]))
    elif k == "ACK":
        fr = ash.AckFrame(res=f["res"], ncp_ready=f["nrdy"], ack_num=f["ack"])
    elif k == "NAK":
        fr = ash.NakFrame(res=f["res"], ncp_ready=f["nrdy"], ack_num=f["ack"])
    elif k == "RST":
        fr = ash.RstFrame()
    elif k == "RSTACK":
        fr = ash.RStackFrame(version=2, reset_code=f["code"])
    else:
        fr = ash.ErrorFrame(version=2, reset_code=f["code"])
    p.frame_received(fr)


def expect_step(ctx, f, rx, writes, ups, rx_after, tx_before, tx_after, tag=""):
    """Oracle for one frame, straight from the property text."""
    k = f["kind"]
    if k == "DATA":
        acc = f["frm"] == rx
        new_rx = site(acc, (rx + 1) % 8, rx)
        ctx.check(len(writes) == 1, tag + "DATA frame answered by %d frames instead of exactly one" % len(writes),
                  "data-answer-count")
        cancel, fr = R.parse_write(ctx, writes[0][1])
        ctx.check(fr[0] in ("ACK", "NAK"), tag + "DATA frame answered by a %s frame" % fr[0], "data-answer-kind")
        ctx.check(fr[3] == new_rx, tag + "ACK/NAK does not carry the next expected frame number", "answer-number")
        ctx.check(simplies(acc, fr[0] == "ACK"), tag + "accepted DATA frame answered with NAK", "accepted-nak")
        n_up = len([e for e in ups if e[0] == "up"])
        if acc:
            ctx.label("accepted")
            ctx.check(n_up == 1, tag + "in-sequence DATA frame handed up %d times" % n_up, "accept-count")
            pl = [e for e in ups if e[0] == "up"][0][1]
            ctx.check(len(pl) == len(f["payload"]), tag + "payload length changed", "payload")
            ctx.check(sand(*[a == b for a, b in zip(pl, f["payload"])]), tag + "payload bytes changed", "payload")
        else:
            ctx.label("rejected")
            ctx.check(n_up == 0, tag + "out-of-sequence DATA frame handed up", "reject-delivered")
        ctx.check(len(ups) == n_up, tag + "unexpected upward notification for DATA", "data-extra-up")
        ctx.check(rx_after == new_rx, tag + "expected frame number not advanced exactly on acceptance", "rx-advance")
    elif k == "RSTACK":
        ctx.label("rstack")
        ctx.check(len(writes) == 0, tag + "RSTACK caused a write", "rstack-write")
        ctx.check(len(ups) == 1 and ups[0][0] == "reset", tag + "RSTACK not reported upward exactly once", "rstack-report")
        ctx.check(ups[0][1] == f["code"], tag + "RSTACK reset code changed", "rstack-code")
        ctx.check(sand(rx_after == 0, tx_after == 0), tag + "RSTACK did not restart numbering at zero", "rstack-zero")
    elif k == "ERROR":
        ctx.label("error")
        ctx.check(len(writes) == 0, tag + "ERROR caused a write", "error-write")
        ctx.check(len(ups) == 1 and ups[0][0] == "reset", tag + "ERROR not reported upward exactly once", "error-report")
        ctx.check(ups[0][1] == f["code"], tag + "ERROR code changed", "error-code")
        ctx.check(rx_after == rx, tag + "ERROR changed the expected frame number", "error-rx")
    else:
        ctx.label("ctl")
        ctx.check(len(writes) == 0, tag + k + " frame caused a write", "ctl-write")
        ctx.check(len(ups) == 0, tag + k + " frame caused an upward delivery", "ctl-up")
        ctx.check(rx_after == rx, tag + k + " frame changed the expected frame number", "ctl-rx")


class Step(Harness):
    """Inductive step: arbitrary receiver state, one arbitrary well-formed frame."""

    name = "c04_step"
    must_reach = ("accepted", "rejected", "rstack", "error", "ctl")
    functions = ("AshProtocol.frame_received", "AshProtocol.data_frame_received", "AshProtocol.rstack_frame_received",
                 "AshProtocol.error_frame_received", "AshProtocol._handle_ack", "AshProtocol._write_frame",
                 "AshProtocol.data_received", "parse_frame")

    def run(self, ctx, via="object", plen=1):
        rx = ctx.int("rx", 0, 7)
        tx = ctx.int("tx", 0, 7)
        failed = ctx.flag("failed")
        ash, p, tr, up = mk(ctx, rx, tx, failed)
        f = sym_frame(ctx, 0, plen)
        inject(ctx, ash, p, f, via)
        expect_step(ctx, f, rx, tr.writes, up.events, p._rx_seq, tx, p._tx_seq)
        ctx.observe([w[1] for w in tr.writes], up.events, p._rx_seq, p._tx_seq)


class Seq(Harness):
    """k symbolic frames; reference receiver automaton in lock-step (exactly once, in order)."""

    name = "c04_seq"
    must_reach = ("accepted", "rejected", "rstack", "wrapped")

    def run(self, ctx, k=3, via="object", start="symbolic"):
        rx = ctx.int("rx", 0, 7) if start == "symbolic" else 0
        ash, p, tr, up = mk(ctx, rx, 0)
        ref = R.RefReceiver(rx)
        n_acc = 0
        for i in range(k):
            f = sym_frame(ctx, i, 1)
            w0, u0 = len(tr.writes), len(up.events)
            rx_before = p._rx_seq
            inject(ctx, ash, p, f, via)
            ctx.check(ref.rx_seq == rx_before, "reference and implementation disagree on the expected number", "ref-desync")
            expect_step(ctx, f, rx_before, tr.writes[w0:], up.events[u0:], p._rx_seq, None, p._tx_seq, tag="frame %d: " % i)
            # lock-step reference
            e0 = len(ref.events)
            if f["kind"] == "DATA":
                ref.frame(("DATA", f["frm"], f["retx"], f["ack"], f["payload"]))
                if len([e for e in ref.events[e0:] if e[0] == "up"]):
                    n_acc += 1
            elif f["kind"] in ("RSTACK", "ERROR"):
                ref.frame((f["kind"], 2, f["code"]))
            ref_up = [e for e in ref.events[e0:] if e[0] in ("up", "reset")]
            got_up = up.events[u0:]
            ctx.check(len(ref_up) == len(got_up), "frame %d: upward events differ from the reference receiver" % i, "seq-up-count")
            ctx.check(ref.rx_seq == p._rx_seq, "frame %d: expected number differs from the reference receiver" % i, "seq-rx")
        if n_acc >= 2:
            ctx.label("wrapped" if n_acc >= 2 else "x")
        ctx.observe([w[1] for w in tr.writes], up.events, p._rx_seq)


class InFlight(Harness):
    """A host DATA frame is in flight (its acknowledgement future registered) and TWO frames from the peer are processed in
    the same loop callback (one serial read): the receiver side must behave as in the step oracle for both."""

    name = "c04_inflight"
    must_reach = ("accepted", "rejected", "second-ack-on-done-future")
    functions = Step.functions

    def run(self, ctx, via="object", txs=(0, 5)):
        import asyncio

        rx = ctx.int("rx", 0, 7)
        tx = txs[ctx.choice("tx", len(txs))]  # number of the next host frame; frame tx-1 is in flight
        ash, p, tr, up = mk(ctx, rx, tx)
        loop = asyncio.new_event_loop()
        try:
            fut = loop.create_future()
            p._pending_data_frames[(tx - 1) % 8] = fut
            for i in range(2):
                f = sym_frame(ctx, i, 1)
                w0, u0 = len(tr.writes), len(up.events)
                rx_before = p._rx_seq
                try:
                    inject(ctx, ash, p, f, via)
                except Exception as e:
                    ctx.fail("frame %d (%s) raised %s out of the receive path while a host frame was in flight" % (i, f["kind"], type(e).__name__), "rx-raises-inflight")
                expect_step(ctx, f, rx_before, tr.writes[w0:], up.events[u0:], p._rx_seq, None, p._tx_seq, tag="frame %d with a host frame in flight: " % i)
                if i == 1 and fut.done():
                    ctx.label("second-ack-on-done-future")
            ctx.observe([w[1] for w in tr.writes], up.events, p._rx_seq, fut.done())
        finally:
            if fut.done() and not fut.cancelled():
                fut.exception()
            loop.close()


def main(tier):
    c = Check("C04", tier)
    c.assumptions += [
        "frames are well-formed (built by the reference encoder / as frame objects); malformed input is C02",
        "bellows/ash.py executed from source with bytes/bytearray/frozenset/binascii.crc_hqx replaced by solver-aware models (symx.sbytes)",
        "reference ASH codec refs/ashref.py written from UG101",
        "logging disabled",
    ]
    if tier == "quick":
        c.run("checks.c04:STEP", {"via": "object", "plen": 1})
        c.run("checks.c04:STEP", {"via": "wire", "plen": 1})
        c.run("checks.c04:SEQ", {"k": 2, "via": "object", "start": "symbolic"})
        c.run("checks.c04:INFLIGHT", {"via": "object"})
        c.out_of_bounds += ["sequences longer than 2 frames are covered by the inductive step only (receiver state is exactly the 3-bit expected number; the step starts from all 8 values)",
                            "payloads longer than 1 byte (payload bytes are passed through untouched; longer payloads are C03)"]
    else:
        c.run("checks.c04:STEP", {"via": "object", "plen": 2})
        c.run("checks.c04:STEP", {"via": "wire", "plen": 2})
        c.run("checks.c04:SEQ", {"k": 3, "via": "object", "start": "symbolic"})
        c.run("checks.c04:INFLIGHT", {"via": "object", "txs": [0, 5, 7]}, wall_s=3000)
        c.out_of_bounds += ["sequences longer than 3 frames (object level) are covered by the inductive step only; wire-level injection only for single frames (the two-frame wire-level run exceeded the wall budget)"]
    return c.finish()


STEP = Step()
SEQ = Seq()
INFLIGHT = InFlight()

if __name__ == "__main__":
    sys.exit(main(sys.argv[1] if len(sys.argv) > 1 else "quick"))
