"""C10 - NCP failure or connection loss at any moment is reported and never hangs.

Full host stack after a completed bring-up (refs/fullstack.py), an application callback registered.  Solver-decided:
protocol version, the phase of operation {idle, DATA frame in flight, acknowledged and awaiting the EZSP response, a second
command queued, reset in progress, reset just acknowledged}, the failure kind {ERROR frame with its code, unsolicited
RSTACK with a non-software code, NCP silent from now on, connection lost with / without an error, EOF} and, as control, a
deliberate close."""
from __future__ import annotations

import asyncio
import sys

from refs import ashref as R
from refs.fullstack import Stack, outcome
from symx import vloop
from symx.run import Check, Harness

PHASES = ("idle", "in-flight", "awaiting-response", "queued", "reset-in-progress", "reset-just-acked", "after-timed-out-reset")
KINDS = ("error", "rstack", "silent", "silent-caller-cancelled", "nak-then-silent", "lost-exc", "eof", "close")
ERR_CODES = (0x51, 0x52, 0x00, 0x02, 0x53, 0xFF)
RST_CODES = (0x00, 0x01, 0x02, 0x03, 0x06, 0x09, 0x0C, 0x51, 0x81, 0xFF)
ALL_CODES = tuple(x for x in range(256) if x != 0x0B)
T_BOUND = 10.0 + 1.6 + 4 * 3.2 + 1.0  # command timeout + the link's acknowledgement timeouts (+ slack)


class Failure(Harness):
    name = "c10_failure"
    must_reach = ("error", "rstack", "silent", "silent-caller-cancelled", "nak-then-silent", "lost-exc", "eof", "close", "in-progress-ended", "queued-ended", "early-report")
    functions = ("AshProtocol.error_frame_received", "AshProtocol._enter_failed_state", "AshProtocol.connection_lost", "AshProtocol.eof_received",
                 "AshProtocol._write_frame", "Gateway.reset_received", "Gateway.connection_lost", "Gateway.eof_received", "Gateway.close",
                 "EZSP.enter_failed_state", "EZSP.connection_lost", "EZSP.close", "EZSP._command", "EZSP.stop_ezsp", "ProtocolHandler.command")

    def must_reach_for(self, params):
        ph = params.get("phases", PHASES)
        return [m for m in self.must_reach if (m != "queued-ended" or "queued" in ph) and (m != "silent-caller-cancelled" or "idle" in ph or "in-flight" in ph)]

    def run(self, ctx, versions=(4, 8, 13), codes="boundary", phases=PHASES):
        err_codes, rst_codes = (ERR_CODES, RST_CODES) if codes == "boundary" else (ALL_CODES, ALL_CODES)
        V = versions[ctx.choice("version", len(versions))]
        phase = phases[ctx.choice("phase", len(phases))]
        kind = KINDS[ctx.choice("kind", len(KINDS))]
        if kind == "silent-caller-cancelled":
            # only where the cancelled caller's command is really the one on the dead line
            ctx.require(phase in ("idle", "in-flight"))
        early = ctx.flag("early_power_on_report")
        code = None
        if kind == "error":
            code = err_codes[ctx.choice("code", len(err_codes))]
        elif kind == "rstack":
            code = rst_codes[ctx.choice("code", len(rst_codes))]

        async def main(loop):
            st = Stack(loop, V)
            ez, ncp = st.ez, st.ncp
            if early:
                # the adapter announces a power-on reset when its port is opened, before anybody listens
                ctx.label("early-report")
                st.wire.sink["n"](bytes(R.wire(R.rstack_frame(0x02))))
                await asyncio.sleep(0.01)
            await ez.startup_reset()
            app_calls = []
            ez.add_callback(lambda *a: app_calls.append((loop.time(), a)))
            await ez.nop()
            t0 = loop.time()
            inflight = []
            exc = OSError("serial port vanished")

            def inject():
                if kind == "error":
                    st.wire.sink["n"](bytes(R.wire(R.error_frame(code))))
                elif kind == "rstack":
                    st.wire.sink["n"](bytes(R.wire(R.rstack_frame(code))))
                elif kind in ("silent", "silent-caller-cancelled"):
                    st.wire.cut = True
                elif kind == "nak-then-silent":
                    # the NCP rejects the next DATA frame it sees with one NAK and then falls silent
                    st.wire.cut = True
                    armed = [True]
                    prev = st.transport.on_write

                    def on_write(data):
                        prev(data)
                        bs = list(data)
                        try:
                            fr = R.decode(R.unstuff(bs[:-1]))
                        except R.Bad:
                            return
                        if armed[0] and fr[0] == "DATA":
                            armed[0] = False
                            loop.call_later(0.01, st._to_host, bytes(R.wire(R.nak_frame(fr[1]))))

                    st.transport.on_write = on_write
                elif kind == "lost-exc":
                    st.ash.connection_lost(exc)
                elif kind == "eof":
                    st.ash.eof_received()
                else:
                    ez.close()

            at = t0 + 0.5
            if phase == "after-timed-out-reset":
                # history: an earlier reset request went unanswered (timed out), its caller carried on
                ctx.require(kind in ("lost-exc", "eof", "close"))
                armed = [True]

                def drop_rstack(d, i, data):
                    if armed[0] and d == "n" and bytes(data)[:1] == b"\xc1":
                        armed[0] = False
                        return "drop"
                    return "deliver"

                st.wire.fault = drop_rstack
                rr = await outcome(ez.reset())
                ctx.check(rr[0] == "TimeoutError", "unanswered reset ended with %s" % rr[0], "history-setup")
                st.wire.fault = None
                at = loop.time() + 0.5
                t0 = loop.time()
            if phase == "idle":
                pass
            elif phase == "in-flight":
                loop.call_at(at - 0.002, lambda: inflight.append(loop.create_task(outcome(ez.nop()))))
            elif phase == "awaiting-response":
                ncp.delay = 1.0
                loop.call_at(at - 0.1, lambda: inflight.append(loop.create_task(outcome(ez.nop()))))
            elif phase == "queued":
                ncp.delay = 1.0
                loop.call_at(at - 0.1, lambda: inflight.append(loop.create_task(outcome(ez.nop()))))
                loop.call_at(at - 0.05, lambda: inflight.append(loop.create_task(outcome(ez.getConfigurationValue(ez.types.EzspConfigId.CONFIG_STACK_PROFILE)))))
            elif phase == "reset-in-progress":
                loop.call_at(at - 0.002, lambda: inflight.append(loop.create_task(outcome(ez.reset()))))
            elif phase == "reset-just-acked":
                # the failure is the very next callback after the one that delivers the RSTACK
                orig = st.wire.sink["n"]
                armed = [True]

                def sink(data):
                    orig(data)
                    if armed[0] and bytes(data)[:1] == b"\xc1":
                        armed[0] = False
                        loop.call_soon(inject)  # every external event is its own loop callback

                st.wire.sink["n"] = sink
                loop.call_at(at - 0.002, lambda: inflight.append(loop.create_task(outcome(ez.reset()))))
            if phase != "reset-just-acked":
                loop.call_at(at, inject)
            if kind in ("silent", "silent-caller-cancelled", "nak-then-silent"):
                # a silent NCP is only noticed by traffic: one more command after the line died
                loop.call_at(at + 1.0, lambda: inflight.append(loop.create_task(outcome(ez.nop()))))
            if kind == "silent-caller-cancelled":
                # the caller of that command gives up early (its own timeout); the link must still notice the dead NCP
                loop.call_at(at + 4.0, lambda: (inflight[0] if phase == "in-flight" else inflight[-1]).cancel())
            try:
                await asyncio.sleep(0.5 + T_BOUND + 1.0 + 1.0)
            except vloop.Deadlock:
                ctx.fail("the loop went idle forever", "hang")
            t_fail = at + (1.0 if kind in ("silent", "silent-caller-cancelled", "nak-then-silent") else 0.0)
            what = "v%d, %s, phase %s%s" % (V, kind, phase, "" if code is None else ", code 0x%02X" % code)
            ctx.label(kind)
            reqs = [c for c in app_calls if c[1][0] == "_reset_controller_application"]
            if kind == "close":
                ctx.check(not reqs, "a deliberate close produced a controller-reset request (%s)" % what, "request-on-close")
            else:
                # while the application's own reset call is in progress, that call failing is the report
                via_call = phase == "reset-in-progress" and inflight and inflight[0].done() and inflight[0].result()[0] not in ("ok", "cancelled")
                ctx.check(len(reqs) >= 1 or via_call, "no controller-reset request reached the application (%s)" % what, "failure-not-reported:" + kind)
                if reqs:
                    ctx.check(reqs[0][0] <= t_fail + T_BOUND, "controller-reset request only after %.1f s (%s)" % (reqs[0][0] - t_fail, what), "report-late")
            # every call in progress ended, in time
            for i, tk in enumerate(inflight):
                ctx.check(tk.done(), "call %d in progress at the failure never ended (%s)" % (i, what), "call-hangs")
                if tk.cancelled():
                    continue
                k, tend, _ = tk.result()
                ctx.check(tend <= t_fail + T_BOUND, "call %d ended %.1f s after the failure (%s)" % (i, tend - t_fail, what), "call-late")
                ctx.label("in-progress-ended")
                if phase == "queued" and i == 1:
                    ctx.label("queued-ended")
            # afterwards: stopped, new commands raise at once and write nothing
            stopped_expected = kind != "close" or True
            w0 = len(st.transport.writes)
            tnow = loop.time()
            r = await outcome(ez.nop())
            ctx.check(r[0] not in ("ok", "cancelled") and abs(r[1] - tnow) < 1e-6, "a command after the failure ended with %s after %.3f s instead of raising at once (%s)" % (r[0], r[1] - tnow, what),
                      "new-command-not-refused")
            ctx.check(len(st.transport.writes) == w0, "a command after the failure wrote %d frame(s) to the port (%s)" % (len(st.transport.writes) - w0, what), "write-after-failure")
            if reqs:
                late = [w for w in st.transport.writes if w[0] > reqs[0][0] + 1e-9]
                data_late = []
                for w in late:
                    bs = list(w[1])
                    try:
                        fr = R.decode(R.unstuff(bs[1:-1] if bs[0] == R.CAN else bs[:-1]))
                        if fr[0] == "DATA":
                            data_late.append(w)
                    except R.Bad:
                        pass
                ctx.check(not data_late, "%d DATA frame(s) written to the port after the controller-reset request (%s)" % (len(data_late), what), "data-after-report")
            ctx.observe(V, phase, kind, code, len(reqs), ["cancelled" if tk.cancelled() else tk.result()[0] for tk in inflight], r[0])

        vloop.run(main)


FAILURE = Failure()


def main(tier):
    c = Check("C10", tier)
    c.assumptions += [
        "full stack and NCP model of refs/fullstack.py; bring-up completed and one application callback registered before the failure",
        "ERROR / RSTACK frames are reference-encoded and delivered as received serial bytes; 'silent' = the line stops delivering in both directions (variants: the caller of the command that meets the dead line is cancelled after 4 s; the NCP rejects one DATA frame with a NAK before falling silent); loss / EOF are reported by the transport to AshProtocol",
        "time bound for calls in progress: command timeout 10 s + acknowledgement timeouts 1.6 + 4 x 3.2 s (+1 s slack), reference constants",
        "ERROR frames with code 0x0B are excluded (C11's known finding)",
        "during the application's own reset call, that call raising counts as the report (a silent NCP makes Gateway.reset() time out)",
        "connection_lost(None) is what the transport reports after a deliberate close and is therefore not a failure kind",
    ]
    if tier == "quick":
        c.run("checks.c10:FAILURE", {"versions": [4, 8, 13, 14]})
        c.run("checks.c10:FAILURE", {"versions": [8], "codes": "all", "phases": ["awaiting-response", "reset-in-progress"]})
        c.out_of_bounds += ["failure instants other than the six phases", "all 255 ERROR / RSTACK codes only for version 8 in two phases (boundary sets elsewhere)", "versions other than 4, 8, 13, 14"]
    else:
        c.run("checks.c10:FAILURE", {"versions": [4, 5, 8, 13, 14]})
        c.run("checks.c10:FAILURE", {"versions": [8], "codes": "all", "phases": ["idle", "awaiting-response", "queued", "reset-in-progress"]})
        c.out_of_bounds += ["failure instants other than the six phases"]
    return c.finish()


if __name__ == "__main__":
    sys.exit(main(sys.argv[1] if len(sys.argv) > 1 else "quick"))
