#!/bin/bash
# tools/seedmatrix.sh [tier]  -- run every seeded change against the check of its own property; writes seeded/MATRIX.md
# and records the verdict in each seeded/<id>/meta.json ("caught_by").
HERE="$(cd "$(dirname "$0")/.." && pwd)"
TIER="${1:-quick}"
OUT="$HERE/seeded/MATRIX.md"
{
echo "# Seeded changes vs. checks (tier: $TIER)"
echo
echo "Produced by tools/seedmatrix.sh: each change is applied to /repo (git apply), the check of its own property is run with VERIF_NO_EVIDENCE=1, the tree is restored."
echo
echo "| seed | check | exit | first violation reported |"
echo "|---|---|---|---|"
} > "$OUT"
for D in "$HERE"/seeded/C*/; do
  SID="$(basename "$D")"; P="${SID%%-*}"
  RES="$("$HERE/tools/seedrun.sh" "$SID" "$TIER" "$P" 2>&1)"
  RC="$(echo "$RES" | sed -n 's/.* exit=\([0-9]*\) .*/\1/p' | head -1)"
  WHAT="$(echo "$RES" | grep -m1 '^  what:' | sed 's/^  what: //' | cut -c1-160 | tr '|' '/')"
  echo "| $SID | $P | $RC | $WHAT |" >> "$OUT"
  python3 - "$D/meta.json" "$P" "$RC" "$TIER" "$WHAT" <<'PY'
import json,sys
p,prop,rc,tier,what=sys.argv[1:]
m=json.load(open(p))
m["caught_by"]={"check":prop,"tier":tier,"exit":int(rc) if rc else None,"caught":rc=="1","first_violation":what}
json.dump(m,open(p,"w"),indent=1)
PY
  echo "$SID exit=$RC"
done
echo >> "$OUT"
echo "exit 1 = VIOLATION line printed (caught); 0 = not caught; 2/3 = inconclusive / harness fault." >> "$OUT"
