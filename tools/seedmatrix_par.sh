#!/bin/bash
# tools/seedmatrix_par.sh [tier] [jobs]  -- like seedmatrix.sh, but every seed runs in its own worktree, several at a time.
HERE="$(cd "$(dirname "$0")/.." && pwd)"
TIER="${1:-quick}"; JOBS="${2:-4}"
rm -rf /tmp/sm; mkdir -p /tmp/sm/results
ls "$HERE/seeded" | grep -E '^C[0-9]+-[A-Z]$' | xargs -P "$JOBS" -I{} "$HERE/tools/seedone.sh" {} "$TIER" > /tmp/sm/all.txt 2>&1
OUT="$HERE/seeded/MATRIX.md"
{
echo "# Seeded changes vs. checks (tier: $TIER)"
echo
echo "Produced by tools/seedmatrix_par.sh: each change is applied in a private worktree of /repo, the check of its own property is run against that worktree (VERIF_REPO / PYTHONPATH), the worktree is removed."
echo
echo "| seed | check | exit | first violation reported |"
echo "|---|---|---|---|"
for f in $(ls /tmp/sm/results | sort); do IFS='|' read -r SID P RC WHAT < "/tmp/sm/results/$f"; echo "| $SID | $P | $RC | $WHAT |"; done
echo
echo "exit 1 = VIOLATION line printed (caught); 0 = not caught; 2/3 = inconclusive / harness fault."
} > "$OUT"
python3 - "$HERE" "$TIER" <<'PY'
import json,sys,os,glob
here,tier=sys.argv[1:]
for f in glob.glob('/tmp/sm/results/*.txt'):
    sid,p,rc,what=open(f).read().rstrip('\n').split('|',3)
    mp=os.path.join(here,'seeded',sid,'meta.json')
    m=json.load(open(mp))
    m["caught_by"]={"check":p,"tier":tier,"exit":int(rc),"caught":rc=="1","first_violation":what}
    json.dump(m,open(mp,"w"),indent=1)
PY
grep -c "| 1 |" "$OUT"
