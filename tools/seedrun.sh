#!/bin/bash
# tools/seedrun.sh <seed-id e.g. C04-A> [tier] [property...]  -- apply a seeded change to /repo, run the check(s), undo it.
set -u
SID="$1"; TIER="${2:-quick}"; shift; shift 2>/dev/null
HERE="$(cd "$(dirname "$0")/.." && pwd)"
PROPS="${*:-${SID%%-*}}"
if [ -n "$(git -C /repo status --porcelain --untracked-files=no)" ]; then echo "/repo not clean"; exit 3; fi
git -C /repo apply "$HERE/seeded/$SID/patch.diff" || git -C /repo apply -3 "$HERE/seeded/$SID/patch.diff" || { echo "patch failed"; git -C /repo checkout -- .; exit 3; }
for P in $PROPS; do
  OUT=$(cd "$HERE" && VERIF_NO_EVIDENCE=1 ./run.sh "$TIER" "$P" 2>&1); RC=$?
  echo "seed=$SID check=$P tier=$TIER exit=$RC $(echo "$OUT" | grep -c '^VIOLATION') violation line(s)"
  echo "$OUT" | grep -E '^(VIOLATION|  what|KNOWN|ENGINE|INCONCL|NON-REPRO|UNREACHED)' | head -6
done
git -C /repo reset -q HEAD; git -C /repo checkout -- .
git -C /repo status --porcelain --untracked-files=no | head -3
