"""Run one harness exploration: python tools/one.py checks.c03:LFSR '{"n":1}' [wall_s]"""
import json
import os
import sys

sys.path.insert(0, os.path.dirname(os.path.dirname(os.path.abspath(__file__))))
from symx.run import explore  # noqa: E402

r = explore(sys.argv[1], json.loads(sys.argv[2]) if len(sys.argv) > 2 else {},
            wall_s=float(sys.argv[3]) if len(sys.argv) > 3 else 120)
print(json.dumps(r.summary()))
print("fault:", r.fault, "inconclusive:", r.inconclusive, "unreached:", r.unreached)
for v in r.violations[:5]:
    print("VIO", v["msg"], v.get("reproduced"), v.get("assignment"), (v.get("tb") or "")[-600:])
if r.mismatch:
    print("MISMATCH", json.dumps(r.mismatch)[:2000])
