#!/bin/bash
# tools/seedcheck.sh <Cxx> <A|B> [srcdir]   -- confirm a seeded change independently and file it under seeded/
# (scratch worktree under /tmp, removed afterwards)
set -u
ID="$1"; L="$2"; SRC="${3:-/tmp/mut/$ID/out/$L}"; DL="${4:-$L}"   # DL: label under which the change is filed (round 2: C, D)
HERE="$(cd "$(dirname "$0")/.." && pwd)"
WT="/tmp/seedchk/$ID$L"
mkdir -p /tmp/seedchk
BASE=/tmp/seedchk/base_pass.$(git -C /repo rev-parse --short HEAD).txt
suite() { (cd "$1" && PYTHONPATH="$1" /venv/bin/python -m pytest -q -p no:cacheprovider --timeout=900 --continue-on-collection-errors -rA 2>&1 | grep '^PASSED' | sort); }
rm -rf "$WT"; git -C /repo worktree prune
git -C /repo worktree add --detach "$WT" HEAD >/dev/null 2>&1 || { echo "worktree failed"; exit 3; }
trap 'git -C /repo worktree remove --force "$WT" >/dev/null 2>&1' EXIT
if [ ! -s "$BASE" ]; then suite "$WT" > "$BASE"; fi
DEMO=$(ls "$SRC" | grep -E '^demo.*\.py$' | head -1)
rundemo() { if [[ "$DEMO" == *_test.py ]]; then (cd "$WT" && PYTHONPATH="$WT" timeout 300 /venv/bin/python -m pytest -q -p no:cacheprovider "$SRC/$DEMO" >/dev/null 2>&1); else (cd "$WT" && PYTHONPATH="$WT" timeout 300 /venv/bin/python "$SRC/$DEMO" >/dev/null 2>&1); fi; }
rundemo; CLEAN=$?
git -C "$WT" apply "$SRC/patch.diff" || { echo "patch does not apply"; exit 3; }
rundemo; MUT=$?
suite "$WT" > "/tmp/seedchk/$ID$L.pass"
LOST=$(comm -23 "$BASE" "/tmp/seedchk/$ID$L.pass" | wc -l)
NB=$(wc -l < "$BASE"); NM=$(wc -l < "/tmp/seedchk/$ID$L.pass")
echo "$ID-$L: demo clean=$CLEAN mutant=$MUT; suite baseline=$NB mutant=$NM lost=$LOST"
if [ "$CLEAN" = 0 ] && [ "$MUT" != 0 ] && [ "$LOST" = 0 ]; then
  D="$HERE/seeded/$ID-$DL"; mkdir -p "$D"
  cp "$SRC/patch.diff" "$D/patch.diff"; cp "$SRC/$DEMO" "$D/$DEMO"; [ -f "$SRC/notes.md" ] && cp "$SRC/notes.md" "$D/notes.md"
  python3 - "$D" "$ID" "$DL" "$DEMO" "$NB" "$NM" "$CLEAN" "$MUT" <<'PY'
import json,sys,subprocess
d,pid,l,demo,nb,nm,clean,mut=sys.argv[1:]
notes=open(d+"/notes.md").read() if __import__("os").path.exists(d+"/notes.md") else ""
meta={"property":pid,"id":pid+"-"+l,"origin":"independent sub-agent given only the property text and a scratch worktree",
 "base_commit":subprocess.check_output(["git","-C","/repo","rev-parse","HEAD"],text=True).strip(),
 "needs_to_manifest":notes,
 "confirmed":{"suite_pass_baseline":int(nb),"suite_pass_with_change":int(nm),"baseline_tests_lost":0,
   "demo":demo,"demo_exit_clean_tree":int(clean),"demo_exit_with_change":int(mut),
   "how":"tools/seedcheck.sh: scratch worktree of /repo under /tmp, pytest pass-set compared with the unchanged tree, demo run before and after git apply"}}
json.dump(meta,open(d+"/meta.json","w"),indent=1)
PY
  echo "KEPT $D"
else
  echo "REJECTED $ID-$L"
fi
