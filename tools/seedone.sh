#!/bin/bash
# tools/seedone.sh <seed-id> [tier]  -- run the property's check against a seeded change in a private worktree of /repo
# (VERIF_REPO + PYTHONPATH point the check at the worktree; /repo itself is not touched). Prints one result line.
SID="$1"; TIER="${2:-quick}"; P="${SID%%-*}"
HERE="$(cd "$(dirname "$0")/.." && pwd)"
WT="/tmp/sm/$SID"
mkdir -p /tmp/sm/results
rm -rf "$WT"; git -C /repo worktree prune >/dev/null 2>&1
git -C /repo worktree add --detach "$WT" HEAD >/dev/null 2>&1 || { echo "$SID|$P|3|worktree failed"; exit 0; }
git -C "$WT" apply "$HERE/seeded/$SID/patch.diff" 2>/dev/null || git -C "$WT" apply -3 "$HERE/seeded/$SID/patch.diff" 2>/dev/null || { echo "$SID|$P|3|patch does not apply"; git -C /repo worktree remove --force "$WT"; exit 0; }
id="$(echo "$P" | tr 'A-Z' 'a-z')"
OUT=$(cd "$HERE" && VERIF_REPO="$WT" PYTHONPATH="$HERE:$WT" PYTHONDONTWRITEBYTECODE=1 PYTHONHASHSEED=0 VERIF_NO_EVIDENCE=1 VERIF_NPROC="${VERIF_NPROC:-6}" VERIF_TIER="$TIER" "$HERE/.venv/bin/python" -m "checks.$id" "$TIER" 2>&1); RC=$?
WHAT="$(echo "$OUT" | grep -m1 '^  what:' | sed 's/^  what: //' | cut -c1-160 | tr '|' '/')"
echo "$SID|$P|$RC|$WHAT" | tee "/tmp/sm/results/$SID.txt"
git -C /repo worktree remove --force "$WT" >/dev/null 2>&1
