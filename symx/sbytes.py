"""Solver-aware stand-ins for bytes / bytearray / frozenset / binascii used by shadow-compiled modules.

Lengths are always concrete; elements are ``int`` or ``SymInt`` (0..255).
"""
from __future__ import annotations

import binascii as _binascii
import builtins as _builtins

import z3

from .core import W, EngineLimit, SymBool, SymInt, _idx, sand, sor

_real_bytes = _builtins.bytes
_real_bytearray = _builtins.bytearray
_real_frozenset = _builtins.frozenset


def _elem(x):
    if isinstance(x, SymInt):
        return x
    if isinstance(x, SymBool):
        return x.as_int()
    v = _idx(x)
    if not 0 <= v <= 255:
        raise ValueError("bytes must be in range(0, 256)")
    return v


def _elem_checked(x):
    """Element conversion with Python's range check; symbolic values fork on it."""
    if isinstance(x, SymBool):
        return x.as_int()
    if isinstance(x, SymInt):
        if x.lo >= 0 and x.hi <= 255:
            return x
        if not sand(x >= 0, x <= 255):
            raise ValueError("bytes must be in range(0, 256)")
        return SymInt(x.t, max(x.lo, 0), min(x.hi, 255))
    return _elem(x)


def _items(src):
    if isinstance(src, (SBytes, SByteArray)):
        return list(src._d)
    if isinstance(src, (_real_bytes, _real_bytearray, memoryview)):
        return list(_real_bytes(src))
    if isinstance(src, str):
        raise TypeError("string argument without an encoding")
    return [_elem_checked(x) for x in src]


class _SeqBase:
    __slots__ = ("_d",)
    _mutable = False

    def __init__(self, src=()):
        if isinstance(src, int) and not isinstance(src, bool):
            self._d = [0] * _idx(src)
        elif isinstance(src, SymInt):
            self._d = [0] * int(src)
        else:
            self._d = _items(src)

    # -- basic protocol
    def __len__(self):
        return len(self._d)

    def __bool__(self):
        return bool(self._d)

    def __iter__(self):
        return iter(list(self._d))

    def __getitem__(self, i):
        if isinstance(i, slice):
            return type(self)._from(self._d[i])
        if isinstance(i, SymInt):
            i = int(i)
        return self._d[i]

    @classmethod
    def _from(cls, items):
        o = cls.__new__(cls)
        o._d = list(items)
        return o

    def _eq_term(self, o):
        if isinstance(o, (SBytes, SByteArray)):
            od = o._d
        elif isinstance(o, (_real_bytes, _real_bytearray)):
            od = list(o)
        else:
            return NotImplemented
        if len(od) != len(self._d):
            return False
        return sand(*[a == b for a, b in zip(self._d, od)])

    def __eq__(self, o):
        return self._eq_term(o)

    def __ne__(self, o):
        r = self._eq_term(o)
        if r is NotImplemented:
            return r
        from .core import snot

        return snot(r)

    __hash__ = None

    def __add__(self, o):
        if isinstance(o, (SBytes, SByteArray, _real_bytes, _real_bytearray)):
            return type(self)._from(self._d + _items(o))
        return NotImplemented

    def __radd__(self, o):
        if isinstance(o, (_real_bytes, _real_bytearray)):
            return SBytes._from(list(o) + self._d)
        return NotImplemented

    def __mul__(self, n):
        return type(self)._from(self._d * _idx(n))

    def __contains__(self, x):
        if isinstance(x, (SBytes, SByteArray, _real_bytes, _real_bytearray)):
            sub = _items(x)
            n = len(sub)
            if n == 0:
                return True
            conds = []
            for i in range(len(self._d) - n + 1):
                conds.append(sand(*[self._d[i + j] == sub[j] for j in range(n)]))
            return bool(sor(*conds))
        return bool(sor(*[e == x for e in self._d]))

    def _find(self, sub):
        """Index of the first occurrence (forks per candidate position) or -1."""
        sub = _items(sub)
        n = len(sub)
        for i in range(len(self._d) - n + 1):
            if sand(*[self._d[i + j] == sub[j] for j in range(n)]):
                return i
        return -1

    def find(self, sub):
        return self._find(sub)

    def partition(self, sep):
        n = len(_items(sep))
        i = self._find(sep)
        if i < 0:
            return self[:], type(self)(), type(self)()
        return self[:i], type(self)._from(_items(sep)), self[i + n:]

    def hex(self, *a):
        return "<sym-bytes>"

    def __repr__(self):
        return "<%s len=%d>" % (type(self).__name__, len(self._d))

    __str__ = __repr__

    def __format__(self, spec):
        return repr(self)

    def concretize(self):
        return _real_bytes(int(x) for x in self._d)

    def __bytes__(self):
        return self.concretize()

    def startswith(self, p):
        p = _items(p)
        return len(p) <= len(self._d) and bool(sand(*[a == b for a, b in zip(self._d, p)]))

    def endswith(self, p):
        if isinstance(p, tuple):
            return any(self.endswith(q) for q in p)
        p = _items(p)
        if len(p) > len(self._d):
            return False
        if not p:
            return True
        return bool(sand(*[a == b for a, b in zip(self._d[-len(p):], p)]))

    def serialize(self):
        return self


class SBytes(_SeqBase):
    __slots__ = ()


class SByteArray(_SeqBase):
    __slots__ = ()
    _mutable = True

    def append(self, x):
        self._d.append(_elem_checked(x))

    def extend(self, xs):
        self._d.extend(_items(xs))

    def pop(self, i=-1):
        if isinstance(i, SymInt):
            i = int(i)
        return self._d.pop(i)

    def clear(self):
        self._d.clear()

    def __setitem__(self, i, v):
        if isinstance(i, slice):
            self._d[i] = _items(v)
        else:
            self._d[i] = _elem_checked(v)

    def __delitem__(self, i):
        del self._d[i]

    def __iadd__(self, o):
        self._d.extend(_items(o))
        return self


class SFrozenSet:
    """frozenset of concrete members; membership of a symbolic int is ONE branch."""

    __slots__ = ("_s",)

    def __init__(self, it=()):
        self._s = _real_frozenset(it)

    def __contains__(self, x):
        if isinstance(x, SymInt):
            return bool(sor(*[x == _idx(m) for m in self._s if isinstance(m, int)]))
        return x in self._s

    def __iter__(self):
        return iter(self._s)

    def __len__(self):
        return len(self._s)

    def __repr__(self):
        return "S" + repr(self._s)

    def __eq__(self, o):
        return self._s == (o._s if isinstance(o, SFrozenSet) else o)

    def __hash__(self):
        return hash(self._s)

    def __or__(self, o):
        return SFrozenSet(self._s | (o._s if isinstance(o, SFrozenSet) else o))

    def __and__(self, o):
        return SFrozenSet(self._s & (o._s if isinstance(o, SFrozenSet) else o))

    def __sub__(self, o):
        return SFrozenSet(self._s - (o._s if isinstance(o, SFrozenSet) else o))


# --------------------------------------------------------------------------- CRC model

# crc_hqx is table driven: crc' = (crc << 8) ^ T[(crc >> 8) ^ b]; T is GF(2)-linear in its
# index, so T[x] = XOR_i (bit_i(x) ? T[1<<i] : 0).
_T1 = [_binascii.crc_hqx(_real_bytes([0]), 1 << (8 + i)) for i in range(8)]
# sanity: T[1<<i] equals crc of the single byte (1<<i) from seed 0
assert all(_T1[i] == _binascii.crc_hqx(_real_bytes([1 << i]), 0) for i in range(8))


def _crc_step(crc, b):
    """crc: int or 16-bit z3 term; b: int or SymInt."""
    if isinstance(crc, int) and isinstance(b, int):
        return _binascii.crc_hqx(_real_bytes([b]), crc)
    ct = z3.BitVecVal(crc, 16) if isinstance(crc, int) else crc
    bt = z3.BitVecVal(b, 8) if isinstance(b, int) else z3.Extract(7, 0, b.t)
    idx = z3.Extract(15, 8, ct) ^ bt
    acc = z3.Concat(z3.Extract(7, 0, ct), z3.BitVecVal(0, 8))
    zero = z3.BitVecVal(0, 16)
    for i in range(8):
        acc = acc ^ z3.If(z3.Extract(i, i, idx) == 1, z3.BitVecVal(_T1[i], 16), zero)
    return acc


def crc_hqx(data, seed):
    if isinstance(data, (_real_bytes, _real_bytearray)) and isinstance(seed, int):
        return _binascii.crc_hqx(data, seed)
    if isinstance(seed, SymInt):
        crc = z3.Extract(15, 0, seed.t)
    else:
        crc = _idx(seed) & 0xFFFF
    for b in _items(data):
        crc = _crc_step(crc, b)
    if isinstance(crc, int):
        return crc
    return SymInt(z3.ZeroExt(W - 16, z3.simplify(crc)), 0, 0xFFFF)


class BinasciiModel:
    crc_hqx = staticmethod(crc_hqx)

    @staticmethod
    def hexlify(data, *a):
        if isinstance(data, (SBytes, SByteArray)):
            return b"<sym>"
        return _binascii.hexlify(data, *a)

    @staticmethod
    def unhexlify(x):
        return _binascii.unhexlify(x)


def shadow_bytes(*a, **k):
    """`bytes(...)` inside shadow-compiled code."""
    if not a:
        return SBytes()
    if len(a) > 1 or k:
        return _real_bytes(*a, **k)
    return SBytes(a[0])


class _BytesMeta(type):
    def __instancecheck__(cls, o):
        return isinstance(o, (_real_bytes, SBytes))


class ShadowBytes(metaclass=_BytesMeta):
    """Callable + isinstance-compatible replacement for the name ``bytes``."""

    def __new__(cls, *a, **k):
        return shadow_bytes(*a, **k)

    fromhex = staticmethod(_real_bytes.fromhex)


class _BArrMeta(type):
    def __instancecheck__(cls, o):
        return isinstance(o, (_real_bytearray, SByteArray))


class ShadowByteArray(metaclass=_BArrMeta):
    def __new__(cls, *a, **k):
        if not a:
            return SByteArray()
        return SByteArray(a[0])


class _FSMeta(type):
    def __instancecheck__(cls, o):
        return isinstance(o, (_real_frozenset, SFrozenSet))


class ShadowFrozenSet(metaclass=_FSMeta):
    def __new__(cls, *a):
        return SFrozenSet(*a)
