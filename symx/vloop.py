"""Virtual-time asyncio loop: real Task/Future/timeout machinery, fake selector."""
from __future__ import annotations

import asyncio
import selectors


class Deadlock(Exception):
    """The loop has nothing runnable and no timer: something would hang forever."""


class _FakeSelector(selectors.BaseSelector):
    def __init__(self):
        self._keys = {}
        self.loop = None

    def register(self, fileobj, events, data=None):
        key = selectors.SelectorKey(fileobj, fileobj if isinstance(fileobj, int) else fileobj.fileno(), events, data)
        self._keys[key.fd] = key
        return key

    def unregister(self, fileobj):
        fd = fileobj if isinstance(fileobj, int) else fileobj.fileno()
        return self._keys.pop(fd)

    def modify(self, fileobj, events, data=None):
        self.unregister(fileobj)
        return self.register(fileobj, events, data)

    def select(self, timeout=None):
        loop = self.loop
        if timeout is None:
            raise Deadlock("event loop idle with no timers")
        if timeout > 0:
            loop._vtime += timeout
            if loop._scheduled:
                w = loop._scheduled[0]._when
                if abs(w - loop._vtime) < 1e-9:
                    loop._vtime = w
        return []

    def get_map(self):
        return self._keys

    def close(self):
        self._keys.clear()


class VLoop(asyncio.SelectorEventLoop):
    def __init__(self):
        sel = _FakeSelector()
        self._vtime = 0.0
        super().__init__(selector=sel)
        sel.loop = self
        self._clock_resolution = 1e-9

    def time(self):
        return self._vtime


def run(coro_fn, *, max_time=None):
    """Run ``await coro_fn(loop)`` to completion on a fresh virtual loop.

    Returns (result, loop_end_time).  Deadlock propagates."""
    from .shadow import VTime

    loop = VLoop()
    old = None
    try:
        try:
            old = asyncio.get_event_loop_policy().get_event_loop()
        except Exception:
            old = None
        asyncio.set_event_loop(loop)
        VTime.loop = loop
        res = loop.run_until_complete(coro_fn(loop))
        return res, loop.time()
    finally:
        try:
            pending = [t for t in asyncio.all_tasks(loop) if not t.done()]
            for t in pending:
                t.cancel()
            if pending:
                try:
                    loop.run_until_complete(asyncio.gather(*pending, return_exceptions=True))
                except BaseException:
                    pass
        finally:
            VTime.loop = None
            asyncio.set_event_loop(None)
            loop.close()
