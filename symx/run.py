"""Exploration driver: harness context, parallel decision-tree exploration, path-wise concrete
validation, violation replay, evidence files, known findings, exit codes."""
from __future__ import annotations

import collections
import logging
import hashlib
import importlib
import json
import multiprocessing as mp
import os
import sys
import time
import traceback

from . import core
from .core import EngineLimit, Inconclusive, PathEnd, SymBool, SymInt, Violation, plain

VERIF = os.path.dirname(os.path.dirname(os.path.abspath(__file__)))
REPO = os.environ.get("VERIF_REPO", "/repo")

logging.disable(logging.CRITICAL)

EXIT_OK, EXIT_VIOLATION, EXIT_INCONCLUSIVE, EXIT_FAULT = 0, 1, 2, 3


# --------------------------------------------------------------------------- harness context


class Ctx:
    """What a harness sees.  mode 'sym': values are solver variables; mode 'conc': plain
    Python values taken from an assignment (path validation and replay)."""

    def __init__(self, mode, eng=None, assignment=None):
        self.mode = mode
        self.eng = eng
        self.asg = assignment or {}
        self.obs = []
        self.labels = []
        self.sym = mode == "sym"
        self.sticky = None  # Violation raised where asyncio would swallow it

    # -- symbolic inputs
    def int(self, name, lo, hi):
        if not self.sym:
            v = self.asg[name]
            if not lo <= v <= hi:
                raise EngineLimit("assignment out of declared range: %s=%r" % (name, v))
            return v
        import z3

        if name in self.eng.vars:
            raise EngineLimit("duplicate variable " + name)
        t = z3.BitVec(name, core.W)
        self.eng.vars[name] = t
        x = SymInt(t, lo, hi)
        self.eng.solver.add(z3.And(t >= lo, t <= hi))
        if self.eng._model is not None:
            self.eng._model = None
        return x

    def byte(self, name):
        return self.int(name, 0, 255)

    def bool(self, name):
        return self.int(name, 0, 1) == 1

    def choice(self, name, n):
        """An index 0..n-1 decided by the solver and realised at once (n-way fork)."""
        if n == 1:
            if self.sym:
                self.eng.vars.setdefault(name, __import__("z3").BitVecVal(0, core.W))
            return 0
        v = self.int(name, 0, n - 1)
        return int(v)

    def flag(self, name):
        return self.choice(name, 2) == 1

    def bytes(self, name, n):
        xs = [self.byte("%s[%d]" % (name, i)) for i in range(n)]
        return self.mkbytes(xs)

    def mkbytes(self, xs):
        if self.sym:
            from .sbytes import SBytes

            return SBytes(xs)
        return bytes(xs)

    # -- assumptions / assertions / observations
    def require(self, cond):
        if self.sym:
            self.eng.assume(cond)
        elif not cond:
            raise PathEnd("assumption false in concrete run")

    def check(self, cond, msg, signature=None):
        if self.sym and isinstance(cond, SymBool):
            self.eng.check(cond, msg, signature)
        elif not cond:
            self.fail(msg, signature)

    def fail(self, msg, signature=None):
        v = Violation(msg, signature)
        if self.sticky is None:
            self.sticky = v
        raise v

    def observe(self, *vals):
        self.obs.append(vals if len(vals) != 1 else vals[0])

    def label(self, cls):
        if cls not in self.labels:
            self.labels.append(cls)

    # -- module selection
    @property
    def ash(self):
        from . import shadow

        return shadow.shadow_ash() if self.sym else shadow.real_ash()


class Harness:
    name = "harness"
    must_reach: tuple = ()
    functions = ()  # bellows functions this harness drives (for the evidence file)

    def run(self, ctx: Ctx, **params):
        raise NotImplementedError


# --------------------------------------------------------------------------- worker side


def _resolve(hkey):
    modname, attr = hkey.split(":")
    return getattr(importlib.import_module(modname), attr)


def _blame(e):
    """Does the traceback of an unexpected exception pass through the code under test (/repo)?"""
    tb = traceback.extract_tb(e.__traceback__)
    root = os.path.join(REPO, "")
    return any(fr.filename.startswith(root) for fr in tb)


def run_concrete(harness, params, assignment):
    """Run a harness with plain values.  Returns dict(status, obs, labels, msg, signature)."""
    ctx = Ctx("conc", assignment=dict(assignment))
    core.ENG = None
    out = {"status": "ok", "msg": None, "signature": None}
    try:
        try:
            harness.run(ctx, **params)
        finally:
            if ctx.sticky is not None:
                raise ctx.sticky
    except Violation as v:
        out.update(status="violation", msg=v.msg, signature=v.signature)
    except PathEnd as e:
        out.update(status="pruned", msg=str(e))
    except EngineLimit as e:
        out.update(status="fault", msg="EngineLimit: %s" % e)
    except Exception as e:  # an exception the harness did not expect
        tb = traceback.extract_tb(e.__traceback__)
        where = "%s:%s" % (os.path.basename(tb[-1].filename), tb[-1].name) if tb else "?"
        if not _blame(e):
            # raised and propagated entirely inside the harness / references: a harness error, never a verdict
            out.update(status="fault", msg="harness error %s: %s at %s" % (type(e).__name__, e, where))
            out["obs"] = plain(ctx.obs)
            out["labels"] = list(ctx.labels)
            return out
        out.update(
            status="violation",
            msg="unexpected %s: %s at %s" % (type(e).__name__, e, where),
            signature="exception:%s@%s" % (type(e).__name__, where),
        )
    out["obs"] = plain(ctx.obs)
    out["labels"] = list(ctx.labels)
    return out


def _subtree(args):
    hkey, params, prefix, max_paths, opts = args
    harness = _resolve(hkey)
    eng = core.Engine()
    eng.recheck_every = opts.get("recheck_every", 64)
    if opts.get("deadline"):
        eng.deadline = opts["deadline"]
    work = [prefix]
    res = {
        "paths": 0, "pruned": 0, "validated": 0, "labels": collections.Counter(),
        "samples": [], "violations": [], "fault": None, "inconclusive": None,
        "leftover": [], "mismatch": None, "infeasible": 0,
    }
    validate = opts.get("validate", 1)
    n = 0
    while work and n < max_paths and not res["fault"] and not res["inconclusive"]:
        p = work.pop()
        n += 1
        eng.begin(p)
        eng.work = []
        eng.pending_violations = []
        eng.abort = None
        ctx = Ctx("sym", eng)
        core.ENG = eng
        status, vio = "ok", None
        try:
            try:
                harness.run(ctx, **params)
            finally:
                if eng.abort is not None:
                    raise eng.abort
                if ctx.sticky is not None:
                    raise ctx.sticky
        except PathEnd:
            status = "pruned"
        except Violation as v:
            status = "violation"
            vio = {"msg": v.msg, "signature": v.signature}
        except Inconclusive as e:
            res["inconclusive"] = str(e)
            status = "abort"
        except EngineLimit as e:
            res["fault"] = "EngineLimit on path %r: %s" % (_short(p), e)
            status = "abort"
        except BaseException as e:
            if not isinstance(e, Exception):
                # e.g. asyncio.CancelledError leaking out of a harness: a harness fault, never a verdict
                if isinstance(e, (KeyboardInterrupt, SystemExit)):
                    raise
                res["fault"] = "%s escaped the harness on path %r" % (type(e).__name__, _short(p))
                core.ENG = None
                eng.end()
                break
            tb = traceback.extract_tb(e.__traceback__)
            where = "%s:%s" % (os.path.basename(tb[-1].filename), tb[-1].name) if tb else "?"
            if not _blame(e):
                res["fault"] = "harness error %s: %s at %s on path %r\n%s" % (type(e).__name__, e, where, _short(p),
                                                                              "".join(traceback.format_exception(type(e), e, e.__traceback__)[-4:]))
                core.ENG = None
                eng.end()
                break
            status = "violation"
            vio = {
                "msg": "unexpected %s: %s at %s" % (type(e).__name__, e, where),
                "signature": "exception:%s@%s" % (type(e).__name__, where),
                "tb": "".join(traceback.format_exception(type(e), e, e.__traceback__)[-6:]),
            }
        core.ENG = None
        try:
            fm = None
            if status in ("ok", "violation") or eng.pending_violations:
                fm = eng.final_model()
                if fm is None:
                    # the path condition is unsatisfiable: this "path" never existed (spurious feasibility verdict)
                    status = "infeasible"
                    eng.pending_violations = []
                    res["pruned"] += 1
                    res["infeasible"] = res.get("infeasible", 0) + 1
            if status == "violation":
                vio["assignment"] = eng.assignment(fm)
                eng.pending_violations.append(vio)
                for l in ctx.labels:  # a class reached on a violating path is reached (vacuity guard)
                    res["labels"][l] += 1
            for pv in eng.pending_violations:
                c = run_concrete(harness, params, pv["assignment"])
                pv["reproduced"] = c["status"] == "violation"
                pv["concrete"] = {k: c[k] for k in ("status", "msg", "signature")}
                pv["labels"] = c["labels"]
                if len(res["violations"]) < 50:
                    res["violations"].append(pv)
            if status == "ok":
                res["paths"] += 1
                for l in ctx.labels:
                    res["labels"][l] += 1
                if validate and (res["paths"] % validate == 0):
                    asg = eng.assignment(fm)
                    sobs = eng.evaluate(ctx.obs, fm)
                    c = run_concrete(harness, params, asg)
                    res["validated"] += 1
                    if c["status"] != "ok" or c["obs"] != sobs or c["labels"] != list(ctx.labels):
                        res["mismatch"] = {
                            "assignment": asg, "symbolic_obs": _trim(sobs), "concrete": _trim(c),
                            "symbolic_labels": list(ctx.labels),
                        }
                        res["fault"] = "symbolic/concrete trace mismatch"
                    elif len(res["samples"]) < opts.get("samples", 3):
                        res["samples"].append({"assignment": asg, "labels": list(ctx.labels),
                                               "observations": _trim(sobs)})
            elif status == "pruned":
                res["pruned"] += 1
        except (PathEnd, Inconclusive) as e:
            res["inconclusive"] = "model lost at path end: %s" % e
        finally:
            eng.end()
        work.extend(eng.work)
    res["leftover"] = work
    res["decisions"] = eng.decisions
    res["queries"] = eng.queries
    res["solver_s"] = eng.solver_s
    res["rechecked"] = eng.rechecked
    return res


def _short(p):
    return p[-12:]


def _trim(o, n=1200):
    s = json.dumps(o, default=repr)
    if len(s) <= n:
        return json.loads(s)
    return s[:n] + "..."


# --------------------------------------------------------------------------- master side


class Result:
    def __init__(self, name, params):
        self.name = name
        self.params = params
        self.paths = self.pruned = self.validated = self.decisions = self.queries = 0
        self.solver_s = 0.0
        self.labels = collections.Counter()
        self.samples = []
        self.violations = []
        self.fault = None
        self.inconclusive = None
        self.mismatch = None
        self.wall_s = 0.0
        self.exhaustive = False
        self.unreached = []
        self.infeasible = 0
        self.rechecked = 0

    def summary(self):
        return {
            "harness": self.name, "bounds": self.params, "paths": self.paths, "pruned_paths": self.pruned,
            "decisions": self.decisions, "queries": self.queries, "solver_s": round(self.solver_s, 3),
            "validated": self.validated, "labels": dict(self.labels), "exhaustive": self.exhaustive,
            "infeasible_paths_dropped": self.infeasible, "unsat_verdicts_rechecked_by_fresh_solver": self.rechecked,
            "wall_s": round(self.wall_s, 2),
        }


def explore(hkey, params=None, *, nproc=None, max_paths=2_000_000, wall_s=1500, validate=1,
            samples=2, seed=0):
    """Exhaust the decision tree of a harness.  Never touches z3 in the master process."""
    params = params or {}
    harness = _resolve(hkey)
    nproc = nproc or int(os.environ.get("VERIF_NPROC", "0")) or min(16, os.cpu_count() or 1)
    res = Result(harness.name, params)
    t0 = time.time()
    deadline = time.monotonic() + wall_s
    opts = {"validate": validate, "samples": samples, "deadline": deadline}
    queue = collections.deque([[]])
    inflight = []
    ctx = mp.get_context("fork")
    done_paths = 0
    with ctx.Pool(nproc) as pool:
        while queue or inflight:
            while queue and len(inflight) < nproc * 2:
                # small budgets while fanning out, larger once every core has work
                budget = 4 if (len(queue) + len(inflight)) < nproc * 3 else 250
                p = queue.pop() if (seed % 2) else queue.popleft()
                inflight.append(pool.apply_async(_subtree, ((hkey, params, p, budget, opts),)))
            still = []
            progressed = False
            for a in inflight:
                if a.ready():
                    progressed = True
                    r = a.get()
                    res.paths += r["paths"]
                    res.pruned += r["pruned"]
                    res.validated += r["validated"]
                    res.decisions += r["decisions"]
                    res.queries += r["queries"]
                    res.solver_s += r["solver_s"]
                    res.infeasible += r.get("infeasible", 0)
                    res.rechecked += r.get("rechecked", 0)
                    res.labels.update(r["labels"])
                    for s in r["samples"]:
                        if len(res.samples) < 6:
                            res.samples.append(s)
                    res.violations.extend(r["violations"])
                    if r["fault"] and not res.fault:
                        res.fault = r["fault"]
                        res.mismatch = r["mismatch"]
                    if r["inconclusive"] and not res.inconclusive:
                        res.inconclusive = r["inconclusive"]
                    queue.extend(r["leftover"])
                else:
                    still.append(a)
            inflight = still
            nsig = len({(v.get("concrete") or {}).get("signature") or v["signature"] for v in res.violations})
            stop = res.fault or res.inconclusive or nsig >= 8 or len(res.violations) >= 300
            if res.paths + res.pruned > max_paths:
                res.inconclusive = "path budget %d exhausted" % max_paths
                stop = True
            if time.monotonic() > deadline:
                res.inconclusive = res.inconclusive or "wall budget %ss exhausted" % wall_s
                stop = True
            if stop:
                pool.terminate()
                break
            if not progressed:
                time.sleep(0.005)
        else:
            res.exhaustive = True
    res.wall_s = time.time() - t0
    if res.exhaustive:
        mr = harness.must_reach_for(params) if hasattr(harness, "must_reach_for") else harness.must_reach
        res.unreached = [l for l in mr if res.labels.get(l, 0) == 0]
    return res


# --------------------------------------------------------------------------- known findings


def load_known():
    p = os.path.join(VERIF, "known_findings.json")
    if not os.path.exists(p):
        return []
    with open(p) as f:
        return json.load(f).get("open", [])


def functions_encoded(hkey, params, assignments):
    """bellows functions entered while re-running sample paths concretely."""
    harness = _resolve(hkey)
    seen = set()
    root = os.path.join(REPO, "bellows")

    def prof(frame, event, arg):
        if event == "call":
            fn = frame.f_code.co_filename
            if fn.startswith(root):
                seen.add("%s:%s" % (os.path.relpath(fn, REPO), frame.f_code.co_qualname))

    for asg in assignments[:4]:
        sys.setprofile(prof)
        try:
            run_concrete(harness, params, asg)
        finally:
            sys.setprofile(None)
    return sorted(seen)


class Check:
    """One property check = several harness explorations + direct solver obligations."""

    def __init__(self, prop, tier, level="model_checking"):
        self.prop = prop
        self.tier = tier
        self.level = level
        self.seed = int(os.environ.get("VERIF_SEED", "0") or 0)
        self.t0 = time.time()
        self.results = []
        self.extra = {}
        self.assumptions = []
        self.out_of_bounds = []
        self.obligations = []  # direct z3 queries: dict(name, result, seconds)
        self.funcs = set()
        self.known = [k for k in load_known() if k["property"] == prop]
        self.status = EXIT_OK
        self.messages = []
        self.violation_lines = []
        self.known_lines = []

    def run(self, hkey, params=None, **kw):
        kw.setdefault("seed", self.seed)
        r = explore(hkey, params, **kw)
        self.results.append(r)
        h = _resolve(hkey)
        self.funcs.update(getattr(h, "functions", ()))
        try:
            self.funcs.update(functions_encoded(hkey, params or {}, [s["assignment"] for s in r.samples]))
        except Exception as e:  # profiling is best effort
            self.messages.append("functions_encoded failed: %r" % e)
        print("[%s] %s %s: paths=%d pruned=%d decisions=%d queries=%d solver=%.1fs validated=%d wall=%.1fs%s"
              % (self.prop, r.name, json.dumps(r.params), r.paths, r.pruned, r.decisions, r.queries,
                 r.solver_s, r.validated, r.wall_s, "" if r.exhaustive else " NOT-EXHAUSTIVE"), flush=True)
        self._absorb(hkey, r)
        return r

    def _raise(self, st):
        # precedence: violation (replayed concretely on the real code) > fault > inconclusive > ok
        order = {EXIT_OK: 0, EXIT_INCONCLUSIVE: 1, EXIT_FAULT: 2, EXIT_VIOLATION: 3}
        if order[st] > order[self.status]:
            self.status = st

    def _absorb(self, hkey, r):
        if r.fault:
            self.messages.append("ENGINE FAULT in %s: %s %s" % (r.name, r.fault, json.dumps(r.mismatch, default=repr)[:1500]))
            self._raise(EXIT_FAULT)
        if r.inconclusive:
            self.messages.append("INCONCLUSIVE in %s: %s" % (r.name, r.inconclusive))
            self._raise(EXIT_INCONCLUSIVE)
        if r.unreached and not [v for v in r.violations if v.get("reproduced")]:
            self.messages.append("UNREACHED classes in %s: %s (vacuity guard)" % (r.name, r.unreached))
            self._raise(EXIT_FAULT)
        seen = set()
        for v in r.violations:
            if not v.get("reproduced"):
                self.messages.append(
                    "NON-REPRODUCING counterexample in %s: %s -> concrete %s" % (r.name, v["msg"], v.get("concrete")))
                self._raise(EXIT_FAULT)
                continue
            sig = v["concrete"]["signature"] or v["signature"]
            if sig in seen:
                continue
            seen.add(sig)
            self.report_violation(hkey, r.params, v["assignment"], v["concrete"]["msg"] or v["msg"], sig)

    def report_violation(self, hkey, params, assignment, msg, sig):
        for k in self.known:
            if k["signature"] == sig:
                line = "KNOWN-FINDING: property=%s %s" % (self.prop, k["text"])
                if line not in self.known_lines:
                    self.known_lines.append(line)
                return
        os.makedirs(os.path.join(VERIF, "replays"), exist_ok=True)
        body = {"property": self.prop, "harness": hkey, "params": params, "assignment": assignment,
                "msg": msg, "signature": sig}
        dig = hashlib.sha1(json.dumps(body, sort_keys=True).encode()).hexdigest()[:10]
        path = os.path.join(VERIF, "replays", "%s-%s.json" % (self.prop, dig))
        with open(path, "w") as f:
            json.dump(body, f, indent=1)
        self.violation_lines.append((path, msg, sig))
        self._raise(EXIT_VIOLATION)

    def obligation(self, name, ok, seconds, detail=None, inconclusive=False):
        self.obligations.append({"name": name, "result": "inconclusive" if inconclusive else ("discharged" if ok else "failed"),
                                 "solver_s": round(seconds, 3), **({"detail": detail} if detail else {})})
        if inconclusive:
            self.messages.append("INCONCLUSIVE obligation %s" % name)
            self._raise(EXIT_INCONCLUSIVE)

    def finish(self):
        wall = time.time() - self.t0
        states = sum(r.paths for r in self.results)
        trans = sum(r.decisions for r in self.results)
        val = sum(r.validated for r in self.results)
        samples = []
        for r in self.results:
            for s in r.samples[:2]:
                samples.append({"harness": r.name, **s})
        if not samples:
            samples = [{"obligation": o} for o in self.obligations[:3]] or [{"note": "no completed path"}]
        cov = {
            "states": max(states, 0), "transitions": max(trans, 0),
            "traces_validated_against_impl": val,
            "samples": samples[:8],
            "evaluations": states + len(self.obligations),
            "distinct_nontrivial": states + len(self.obligations),
            "rule": "one evaluation = one solver-feasible path class of the harness decision tree (distinct by "
                    "construction: path conditions are pairwise disjoint) or one directly discharged z3 obligation",
            "exhaustive": all(r.exhaustive for r in self.results) and self.status == EXIT_OK,
            "harnesses": [r.summary() for r in self.results],
            "direct_queries": self.obligations,
            "obligations": len(self.obligations),
            "discharged": len([o for o in self.obligations if o["result"] == "discharged"]),
            "queries": sum(r.queries for r in self.results) + len(self.obligations),
            "solver_s": round(sum(r.solver_s for r in self.results) + sum(o["solver_s"] for o in self.obligations), 2),
            "functions_encoded": sorted(self.funcs),
            "out_of_bounds": self.out_of_bounds,
            "unknown": 0 if self.status in (EXIT_OK, EXIT_VIOLATION) else 1,
            "exit_status": self.status,
            "known_findings_reported": self.known_lines,
            "messages": self.messages[:20],
            **self.extra,
        }
        if cov["states"] == 0 or cov["transitions"] == 0:
            # model_checking schema wants >=1; fall back to generic keys (still present)
            cov.pop("states"), cov.pop("transitions")
        ev = {
            "property_id": self.prop, "tier": self.tier, "seed": self.seed, "level": self.level,
            "coverage": cov, "assumptions": self.assumptions, "wall_s": round(wall, 2),
            "violations": len(self.violation_lines),
        }
        if not os.environ.get("VERIF_NO_EVIDENCE"):  # set only by tools/seedrun.sh (runs against a deliberately broken tree)
            os.makedirs(os.path.join(VERIF, "evidence"), exist_ok=True)
            with open(os.path.join(VERIF, "evidence", self.prop + ".json"), "w") as f:
                json.dump(ev, f, indent=1, default=repr)
        for m in self.messages:
            print(m)
        for l in self.known_lines:
            print(l)
        if self.status == EXIT_VIOLATION:
            for path, msg, sig in self.violation_lines:
                print("VIOLATION property=%s replay=%s" % (self.prop, path))
                print("  what: %s" % msg)
        names = {0: "OK", 1: "VIOLATION", 2: "INCONCLUSIVE", 3: "HARNESS/ENGINE FAULT"}
        print("[%s] %s tier=%s wall=%.1fs states=%d" % (self.prop, names[self.status], self.tier, wall, states))
        return self.status


def replay(path):
    with open(path) as f:
        body = json.load(f)
    h = _resolve(body["harness"])
    c = run_concrete(h, body["params"], body["assignment"])
    print(json.dumps({k: c[k] for k in ("status", "msg", "signature")}, indent=1))
    if c["status"] == "violation":
        print("VIOLATION property=%s replay=%s" % (body["property"], path))
        return 1
    return 0
