"""Shadow loader: compile an unmodified source file from /repo into a fresh module whose
``bytes``/``bytearray``/``frozenset`` names and ``binascii``/``time`` globals are solver-aware."""
from __future__ import annotations

import builtins
import os
import sys
import types

from .sbytes import BinasciiModel, ShadowByteArray, ShadowBytes, ShadowFrozenSet

REPO = os.environ.get("VERIF_REPO", "/repo")


class VTime:
    """`time` module stand-in: monotonic() is the current virtual loop's clock."""

    loop = None

    @classmethod
    def monotonic(cls):
        return cls.loop.time() if cls.loop is not None else 0.0

    @classmethod
    def time(cls):
        return cls.monotonic()


def load_shadowed(relpath: str, name: str, package: str | None = None, replace: dict | None = None):
    path = os.path.join(REPO, relpath)
    with open(path) as f:
        src = f.read()
    mod = types.ModuleType(name)
    mod.__file__ = path
    if package:
        mod.__package__ = package
    b = dict(vars(builtins))
    b["bytes"] = ShadowBytes
    b["bytearray"] = ShadowByteArray
    b["frozenset"] = ShadowFrozenSet
    mod.__dict__["__builtins__"] = b
    sys.modules[name] = mod
    code = compile(src, path, "exec", dont_inherit=True)
    exec(code, mod.__dict__)
    if "binascii" in mod.__dict__:
        mod.binascii = BinasciiModel
    if "time" in mod.__dict__:
        mod.time = VTime
    for k, v in (replace or {}).items():
        setattr(mod, k, v)
    return mod


_cache = {}


def shadow_ash():
    """Shadow-compiled bellows/ash.py (fresh from the working tree, once per process)."""
    if "ash" not in _cache:
        _cache["ash"] = load_shadowed("bellows/ash.py", "symx_shadow_ash")
    return _cache["ash"]


def real_ash():
    import bellows.ash as a

    a.time = VTime  # virtual clock for the concrete runs too
    return a
