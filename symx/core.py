"""symx core: bit-vector backed symbolic values + decision-tree path explorer on z3.

One *path* = one execution of the harness function from scratch, following a
recorded prefix of branch outcomes.  Every coercion of a symbolic value that
Python or C code can ask for (``__bool__``, ``__index__``, ``__hash__``,
``__int__``) goes through :meth:`Engine.branch` / :meth:`Engine.realize`, so no
branch on symbolic data can be taken without the solver deciding both sides.
"""
from __future__ import annotations

import time
import z3

W = 64
_LIM = 1 << 62


class PathEnd(BaseException):
    """The current path stops here (infeasible assumption / pruned)."""


class Inconclusive(BaseException):
    """z3 returned unknown or a budget ran out: the run must not claim success."""


class EngineLimit(BaseException):
    """Operation outside what symx models soundly."""

    def __init__(self, *a):
        super().__init__(*a)
        if ENG is not None and ENG.abort is None:
            ENG.abort = self


class Violation(BaseException):
    """Raised by a harness (or ctx.check) when the property is violated on this path."""

    def __init__(self, msg, signature=None):
        super().__init__(msg)
        self.msg = msg
        self.signature = signature or msg


ENG: "Engine | None" = None  # engine of the path currently executing (symbolic mode)


def _eng() -> "Engine":
    if ENG is None:
        raise EngineLimit("symbolic value used outside of an exploration")
    return ENG


# --------------------------------------------------------------------------- values


def _idx(x):
    return int.__index__(x)


class SymBool:
    __slots__ = ("t",)

    def __init__(self, t):
        self.t = t

    def __bool__(self):
        return _eng().branch(self.t)

    def __and__(self, o):
        if isinstance(o, SymBool):
            return SymBool(z3.And(self.t, o.t))
        if isinstance(o, bool):
            return self if o else False
        return NotImplemented

    __rand__ = __and__

    def __or__(self, o):
        if isinstance(o, SymBool):
            return SymBool(z3.Or(self.t, o.t))
        if isinstance(o, bool):
            return True if o else self
        return NotImplemented

    __ror__ = __or__

    def __invert__(self):
        return SymBool(z3.Not(self.t))

    def __eq__(self, o):
        if isinstance(o, SymBool):
            return SymBool(self.t == o.t)
        if isinstance(o, bool):
            return self if o else SymBool(z3.Not(self.t))
        if isinstance(o, (int, SymInt)):
            return self.as_int() == o
        return NotImplemented

    def __ne__(self, o):
        r = self.__eq__(o)
        if r is NotImplemented:
            return r
        return snot(r)

    def __hash__(self):
        return hash(bool(self))

    def as_int(self):
        return SymInt(z3.If(self.t, z3.BitVecVal(1, W), z3.BitVecVal(0, W)), 0, 1)

    def __index__(self):
        return 1 if bool(self) else 0

    __int__ = __index__

    def __lshift__(self, k):
        return self.as_int() << k

    def __repr__(self):
        return "<SymBool>"


def snot(a):
    if isinstance(a, SymBool):
        return SymBool(z3.Not(a.t))
    return not a


def sand(*xs):
    ts = []
    for x in xs:
        if isinstance(x, SymBool):
            ts.append(x.t)
        elif not x:
            return False
    if not ts:
        return True
    return SymBool(z3.And(*ts)) if len(ts) > 1 else SymBool(ts[0])


def sor(*xs):
    ts = []
    for x in xs:
        if isinstance(x, SymBool):
            ts.append(x.t)
        elif x:
            return True
    if not ts:
        return False
    return SymBool(z3.Or(*ts)) if len(ts) > 1 else SymBool(ts[0])


def simplies(a, b):
    return sor(snot(a), b)


def site(c, a, b):
    """if-then-else over ints without branching."""
    if isinstance(c, SymBool):
        ta, la, ha = _tlh(a)
        tb, lb, hb = _tlh(b)
        return SymInt(z3.If(c.t, ta, tb), min(la, lb), max(ha, hb))
    return a if c else b


def _tlh(x):
    if isinstance(x, SymInt):
        return x.t, x.lo, x.hi
    if isinstance(x, SymBool):
        x = x.as_int()
        return x.t, 0, 1
    v = _idx(x)
    return z3.BitVecVal(v, W), v, v


def _chk(lo, hi):
    if lo < -_LIM or hi > _LIM:
        raise EngineLimit("possible 64-bit wrap-around")


def _bits(v):
    return max(int(v).bit_length(), 1)


class SymInt:
    """Python int backed by a 64-bit signed bit-vector term with a tracked interval."""

    __slots__ = ("t", "lo", "hi")

    def __init__(self, t, lo, hi):
        _chk(lo, hi)
        self.t = t
        self.lo = lo
        self.hi = hi

    # -- helpers
    @staticmethod
    def _lift(o):
        if isinstance(o, SymInt):
            return o.t, o.lo, o.hi
        if isinstance(o, SymBool):
            o = o.as_int()
            return o.t, 0, 1
        if isinstance(o, int):
            v = _idx(o)
            if not (-_LIM <= v <= _LIM):
                raise EngineLimit("constant too large")
            return z3.BitVecVal(v, W), v, v
        return None

    def _bin(self, o, f, fb):
        l = SymInt._lift(o)
        if l is None:
            return NotImplemented
        t, lo, hi = l
        nlo, nhi = fb(self.lo, self.hi, lo, hi)
        return SymInt(f(self.t, t), nlo, nhi)

    def _rbin(self, o, f, fb):
        l = SymInt._lift(o)
        if l is None:
            return NotImplemented
        t, lo, hi = l
        nlo, nhi = fb(lo, hi, self.lo, self.hi)
        return SymInt(f(t, self.t), nlo, nhi)

    # -- arithmetic
    def __add__(self, o):
        return self._bin(o, lambda a, b: a + b, lambda al, ah, bl, bh: (al + bl, ah + bh))

    def __radd__(self, o):
        return self._rbin(o, lambda a, b: a + b, lambda al, ah, bl, bh: (al + bl, ah + bh))

    def __sub__(self, o):
        return self._bin(o, lambda a, b: a - b, lambda al, ah, bl, bh: (al - bh, ah - bl))

    def __rsub__(self, o):
        return self._rbin(o, lambda a, b: a - b, lambda al, ah, bl, bh: (al - bh, ah - bl))

    @staticmethod
    def _mulb(al, ah, bl, bh):
        c = (al * bl, al * bh, ah * bl, ah * bh)
        return min(c), max(c)

    def __mul__(self, o):
        return self._bin(o, lambda a, b: a * b, SymInt._mulb)

    def __rmul__(self, o):
        return self._rbin(o, lambda a, b: a * b, SymInt._mulb)

    def __neg__(self):
        return SymInt(-self.t, -self.hi, -self.lo)

    def __pos__(self):
        return self

    def __abs__(self):
        return site(self < 0, -self, self)

    def __invert__(self):
        return SymInt(~self.t, -self.hi - 1, -self.lo - 1)

    def __mod__(self, o):
        if isinstance(o, SymInt) or not isinstance(o, int):
            raise EngineLimit("symbolic divisor")
        m = _idx(o)
        if m <= 0:
            raise EngineLimit("non-positive divisor")
        if self.lo >= 0 and self.hi < m:
            return self
        if m & (m - 1) == 0:
            return SymInt(self.t & z3.BitVecVal(m - 1, W), 0, m - 1)
        if self.lo >= 0:
            # value provably in [0, hi]: do the remainder on the narrowest sufficient width
            k = max(_bits(self.hi), _bits(m)) + 1
            if k < W:
                r = z3.URem(z3.Extract(k - 1, 0, self.t), z3.BitVecVal(m, k))
                return SymInt(z3.ZeroExt(W - k, r), 0, m - 1)
        return SymInt(z3.simplify(self.t % z3.BitVecVal(m, W)), 0, m - 1)  # bvsmod

    def __floordiv__(self, o):
        if isinstance(o, SymInt) or not isinstance(o, int):
            raise EngineLimit("symbolic divisor")
        m = _idx(o)
        if m <= 0:
            raise EngineLimit("non-positive divisor")
        if m & (m - 1) == 0:
            k = m.bit_length() - 1
            return SymInt(self.t >> k, self.lo >> k, self.hi >> k)
        if self.lo < 0:
            raise EngineLimit("floor division of possibly negative value")
        k = max(_bits(self.hi), _bits(m)) + 1
        if k < W:
            q = z3.UDiv(z3.Extract(k - 1, 0, self.t), z3.BitVecVal(m, k))
            return SymInt(z3.ZeroExt(W - k, q), self.lo // m, self.hi // m)
        return SymInt(z3.UDiv(self.t, z3.BitVecVal(m, W)), self.lo // m, self.hi // m)

    # -- bit operations
    @staticmethod
    def _andb(al, ah, bl, bh):
        if al >= 0 and bl >= 0:
            return 0, min(ah, bh)
        if al >= 0:
            return 0, ah
        if bl >= 0:
            return 0, bh
        k = max(_bits(al), _bits(ah), _bits(bl), _bits(bh))
        return -(1 << k), (1 << k) - 1

    @staticmethod
    def _orb(al, ah, bl, bh):
        k = max(_bits(al), _bits(ah), _bits(bl), _bits(bh))
        if al >= 0 and bl >= 0:
            return 0, (1 << k) - 1
        return -(1 << k), (1 << k) - 1

    def __and__(self, o):
        return self._bin(o, lambda a, b: a & b, SymInt._andb)

    __rand__ = __and__

    def __or__(self, o):
        return self._bin(o, lambda a, b: a | b, SymInt._orb)

    __ror__ = __or__

    def __xor__(self, o):
        return self._bin(o, lambda a, b: a ^ b, SymInt._orb)

    __rxor__ = __xor__

    def __lshift__(self, o):
        l = SymInt._lift(o)
        if l is None:
            return NotImplemented
        t, lo, hi = l
        if lo < 0 or hi > 62:
            raise EngineLimit("shift amount out of range")
        c = (self.lo << lo, self.lo << hi, self.hi << lo, self.hi << hi)
        return SymInt(self.t << t, min(c), max(c))

    def __rlshift__(self, o):
        l = SymInt._lift(o)
        if l is None:
            return NotImplemented
        t, lo, hi = l
        if self.lo < 0 or self.hi > 62:
            raise EngineLimit("shift amount out of range")
        c = (lo << self.lo, lo << self.hi, hi << self.lo, hi << self.hi)
        return SymInt(t << self.t, min(c), max(c))

    def __rshift__(self, o):
        l = SymInt._lift(o)
        if l is None:
            return NotImplemented
        t, lo, hi = l
        if lo < 0 or hi > 63:
            raise EngineLimit("shift amount out of range")
        c = (self.lo >> lo, self.lo >> hi, self.hi >> lo, self.hi >> hi)
        return SymInt(self.t >> t, min(c), max(c))  # arithmetic shift

    def __rrshift__(self, o):
        l = SymInt._lift(o)
        if l is None:
            return NotImplemented
        t, lo, hi = l
        if self.lo < 0 or self.hi > 63:
            raise EngineLimit("shift amount out of range")
        c = (lo >> self.lo, lo >> self.hi, hi >> self.lo, hi >> self.hi)
        return SymInt(t >> self.t, min(c), max(c))

    # -- comparisons (signed)
    def _cmp(self, o, f, decide):
        l = SymInt._lift(o)
        if l is None:
            return NotImplemented
        t, lo, hi = l
        d = decide(self.lo, self.hi, lo, hi)
        if d is not None:
            return d
        return SymBool(f(self.t, t))

    def __lt__(self, o):
        return self._cmp(o, lambda a, b: a < b,
                         lambda al, ah, bl, bh: True if ah < bl else (False if al >= bh else None))

    def __le__(self, o):
        return self._cmp(o, lambda a, b: a <= b,
                         lambda al, ah, bl, bh: True if ah <= bl else (False if al > bh else None))

    def __gt__(self, o):
        return self._cmp(o, lambda a, b: a > b,
                         lambda al, ah, bl, bh: True if al > bh else (False if ah <= bl else None))

    def __ge__(self, o):
        return self._cmp(o, lambda a, b: a >= b,
                         lambda al, ah, bl, bh: True if al >= bh else (False if ah < bl else None))

    def __eq__(self, o):
        return self._cmp(o, lambda a, b: a == b,
                         lambda al, ah, bl, bh: False if (ah < bl or al > bh) else
                         (True if al == ah == bl == bh else None))

    def __ne__(self, o):
        r = self.__eq__(o)
        if r is NotImplemented:
            return r
        return snot(r)

    # -- coercions (all go through the engine)
    def __bool__(self):
        r = self != 0
        return bool(r)

    def __index__(self):
        return _eng().realize(self)

    __int__ = __index__

    def __hash__(self):
        return hash(_eng().realize(self))

    def __format__(self, spec):
        return "<sym>"

    def __repr__(self):
        return "<SymInt>"

    __str__ = __repr__

    def to_bytes(self, length=1, byteorder="big", *, signed=False):
        from .sbytes import SBytes

        if signed:
            raise EngineLimit("signed to_bytes")
        ok = sand(self >= 0, self < (1 << (8 * length)))
        if not ok:
            raise OverflowError("int too big to convert")
        out = [(self >> (8 * i)) & 0xFF for i in range(length)]
        if byteorder == "big":
            out.reverse()
        return SBytes(out)

    def bit_length(self):
        return int(self).bit_length()


def is_sym(x):
    return isinstance(x, (SymInt, SymBool))


# --------------------------------------------------------------------------- engine


class Engine:
    def __init__(self):
        self.solver = z3.Solver()
        self.prefix: list[bool] = []
        self.trace: list[bool] = []
        self.work: list[list[bool]] = []
        self._model = None
        self.vars: dict[str, object] = {}  # name -> z3 term (declared on this path)
        self.queries = 0
        self.solver_s = 0.0
        self.decisions = 0
        self.realized: dict[int, tuple] = {}
        self.pending_violations: list[dict] = []
        self.deadline = None
        self.abort = None  # sticky control exception (asyncio swallows BaseException in callbacks)
        self.infeasible_paths = 0
        self.recheck_every = 0  # every n-th one-sided branch verdict is re-checked with a fresh solver
        self.rechecked = 0
        self._onesided = 0

    def _stop(self, exc):
        if self.abort is None:
            self.abort = exc
        return exc

    # -- per path
    def begin(self, prefix):
        self.solver.push()
        self.prefix = prefix
        self.trace = []
        self._model = None
        self.vars = {}
        self.realized = {}
        self.abort = None

    def end(self):
        self.solver.pop()
        self._model = None

    def _check(self):
        t0 = time.perf_counter()
        r = self.solver.check()
        self.solver_s += time.perf_counter() - t0
        self.queries += 1
        if r == z3.unknown:
            raise self._stop(Inconclusive("z3 unknown: " + self.solver.reason_unknown()))
        if self.deadline is not None and time.monotonic() > self.deadline:
            raise self._stop(Inconclusive("wall budget exhausted"))
        return r

    def model(self):
        if self._model is None:
            if self._check() != z3.sat:
                raise self._stop(PathEnd("path condition unsatisfiable"))
            self._model = self.solver.model()
        return self._model

    def final_model(self):
        """Model of the complete path condition at path end, or None if the path is infeasible.

        The incremental solver occasionally reports an infeasible branch side as feasible (seen with z3 5.1.0 after
        thousands of push/pop cycles): such a path ends with an unsatisfiable path condition.  An 'unsat' here is
        confirmed by a fresh, non-incremental solver before the path is dropped; a disagreement is inconclusive."""
        self._model = None
        r = self._check()
        if r == z3.sat:
            self._model = self.solver.model()
            return self._model
        s2 = z3.Solver()
        for a in self.solver.assertions():
            s2.add(a)
        t0 = time.perf_counter()
        r2 = s2.check()
        self.solver_s += time.perf_counter() - t0
        self.queries += 1
        if r2 == z3.unsat:
            self.infeasible_paths += 1
            return None
        raise self._stop(Inconclusive("incremental and fresh solver disagree at path end (%s vs %s)" % (r, r2)))

    def _feasible(self, cond):
        """Is pc ∧ cond satisfiable?  Returns model or None."""
        self.solver.push()
        try:
            self.solver.add(cond)
            if self._check() == z3.sat:
                return self.solver.model()
            return None
        finally:
            self.solver.pop()

    def branch(self, cond) -> bool:
        if self.abort is not None:
            raise self.abort
        if z3.is_true(cond):
            return True
        if z3.is_false(cond):
            return False
        cond = z3.simplify(cond)
        if z3.is_true(cond):
            return True
        if z3.is_false(cond):
            return False
        i = len(self.trace)
        if i < len(self.prefix):
            take = self.prefix[i]
            if not isinstance(take, bool):
                raise EngineLimit("non-deterministic replay (expected branch node)")
            self.trace.append(take)
            self.solver.add(cond if take else z3.Not(cond))
            self._model = None
            return take
        m = self.model()
        side = z3.is_true(m.eval(cond, model_completion=True))
        other = z3.Not(cond) if side else cond
        if self._feasible(other) is not None:
            self.decisions += 1
            self.work.append(self.trace + [not side])
        elif self.recheck_every:
            self._onesided += 1
            if self._onesided % self.recheck_every == 0:
                s2 = z3.Solver()
                for a in self.solver.assertions():
                    s2.add(a)
                s2.add(other)
                t0 = time.perf_counter()
                r2 = s2.check()
                self.solver_s += time.perf_counter() - t0
                self.queries += 1
                self.rechecked += 1
                if r2 != z3.unsat:
                    raise self._stop(Inconclusive("fresh solver contradicts an 'unsat' branch verdict (%s)" % r2))
        self.trace.append(side)
        self.solver.add(cond if side else z3.Not(cond))
        return side

    def realize(self, x: SymInt) -> int:
        key = x.t.get_id()
        if key in self.realized:
            return self.realized[key][1]
        t = z3.simplify(x.t)
        if z3.is_bv_value(t):
            v = t.as_signed_long()
            self.realized[key] = (x.t, v)  # keep the term alive: z3 re-uses the ids of freed terms
            return v
        while True:
            i = len(self.trace)
            if i < len(self.prefix):
                ent = self.prefix[i]
                if not isinstance(ent, tuple):
                    raise EngineLimit("non-deterministic replay (expected realisation node)")
                _, v, take = ent
                cond = t == z3.BitVecVal(v, W)
                self.trace.append(ent)
                self.solver.add(cond if take else z3.Not(cond))
                self._model = None
                if take:
                    self.realized[key] = (x.t, v)
                    return v
                continue
            v = self.model().eval(t, model_completion=True).as_signed_long()
            cond = t == z3.BitVecVal(v, W)
            if self._feasible(z3.Not(cond)) is not None:
                self.decisions += 1
                self.work.append(self.trace + [("r", v, False)])
            self.trace.append(("r", v, True))
            self.solver.add(cond)
            self.realized[key] = (x.t, v)
            return v

    # -- assumptions / assertions
    def assume(self, cond):
        if isinstance(cond, SymBool):
            c = z3.simplify(cond.t)
            if z3.is_true(c):
                return
            if z3.is_false(c):
                raise self._stop(PathEnd("assumption false"))
            self.solver.add(c)
            if self._model is not None and not z3.is_true(self._model.eval(c, model_completion=True)):
                self._model = None
            self.model()  # raises PathEnd when infeasible
        elif not cond:
            raise self._stop(PathEnd("assumption false"))

    def check(self, cond, msg, signature=None):
        """cond must hold for every value on this path; otherwise record a violation."""
        if isinstance(cond, SymBool):
            c = z3.simplify(cond.t)
            if z3.is_true(c):
                return
            m = self._feasible(z3.Not(c))
            if m is not None:
                self.pending_violations.append(
                    {"msg": msg, "signature": signature or msg, "assignment": self.assignment(m)}
                )
                if self._feasible(c) is None:
                    # the assertion fails for EVERY value on this path: stop here without adding the (contradictory)
                    # assertion to the path condition, so that the recorded violation keeps a satisfiable path condition
                    raise self._stop(PathEnd("assertion fails on every value of this path"))
            self.assume(SymBool(c))  # continue under the assertion
        elif not cond:
            raise Violation(msg, signature)

    def assignment(self, m=None):
        m = m or self.model()
        out = {}
        for name, t in self.vars.items():
            v = m.eval(t, model_completion=True)
            if z3.is_bool(v):
                out[name] = z3.is_true(v)
            else:
                out[name] = v.as_signed_long()
        return out

    def evaluate(self, obj, m=None):
        """Concretise an observation structure under the path's model."""
        m = m or self.model()
        return _conc(obj, m)


def _conc(o, m):
    from .sbytes import SBytes, SByteArray

    if isinstance(o, SymInt):
        return m.eval(o.t, model_completion=True).as_signed_long()
    if isinstance(o, SymBool):
        return z3.is_true(m.eval(o.t, model_completion=True))
    if isinstance(o, (SBytes, SByteArray)):
        return bytes(_conc(x, m) & 0xFF for x in o._d).hex()
    if isinstance(o, (bytes, bytearray)):
        return bytes(o).hex()
    if isinstance(o, bool) or o is None or isinstance(o, (str, float)):
        return o
    if isinstance(o, int):
        return _idx(o)
    if isinstance(o, (list, tuple)):
        return [_conc(x, m) for x in o]
    if isinstance(o, dict):
        return {str(k): _conc(v, m) for k, v in o.items()}
    return repr(o)


def plain(o):
    """Normalise a concrete observation structure the same way _conc does."""
    if isinstance(o, (bytes, bytearray)):
        return bytes(o).hex()
    if isinstance(o, bool) or o is None or isinstance(o, (str, float)):
        return o
    if isinstance(o, int):
        return _idx(o)
    if isinstance(o, (list, tuple)):
        return [plain(x) for x in o]
    if isinstance(o, dict):
        return {str(k): plain(v) for k, v in o.items()}
    return repr(o)
