#!/usr/bin/env python3
"""Regenerates MANIFEST.json from the table below (keeps it valid at all times)."""
import json, os
HERE = os.path.dirname(os.path.abspath(__file__))
props = [json.loads(l) for l in open(os.path.join(HERE, "properties.jsonl"))]
from manifest_table import CHECKS, NOT_APPLICABLE, FIX_COMMITS  # noqa

checks = []
for pid, c in CHECKS.items():
    checks.append({
        "property_id": pid,
        "quick_cmd": "./run.sh quick %s" % pid,
        "thorough_cmd": "./run.sh thorough %s" % pid,
        "evidence_file": "/verif/evidence/%s.json" % pid,
        "replay_cmd_template": "./run.sh replay {path}",
        "engine": c.get("engine", "symx"),
        "level_claimed": {"category": c.get("level", "model_checking"), "text": c["text"], "design_ref": "DESIGN.md section 5, " + pid},
        "level_note": c["note"],
        "technique": c["technique"],
    })
na = [{"property_id": p["id"], "reason": NOT_APPLICABLE.get(p["id"], "check not built yet in this round (see DESIGN.md section 9)")}
      for p in props if p["id"] not in CHECKS]
m = {
    "version": 1,
    "setup_cmd": "./setup.sh",
    "hooks": {
        "guard": "BELLOWS_VERIF",
        "enable": "no hooks are needed: checks load /repo's sources as they are (shadow-compiled for byte-level code); the guard variable is unused",
        "baseline_off_cmd": "cd /repo && /venv/bin/python -m pytest -ra -q -p no:cacheprovider --timeout=900 --continue-on-collection-errors",
        "source_commits": FIX_COMMITS,
        "add_only": True,
    },
    "engines": [
        {"name": "symx", "path": "/verif/symx", "serves_properties": sorted(CHECKS),
         "kind_free_text": "bit-vector symbolic executor for the real Python source on z3 (decision-tree re-execution, shadow-compiled bytes/CRC models, path-wise concrete validation)"},
        {"name": "crosshair", "path": "/verif/.venv (crosshair-tool 0.0.110 from the wheelhouse)", "serves_properties": [p for p, c in CHECKS.items() if "CrossHair" in c.get("technique", "")],
         "kind_free_text": "off-the-shelf symbolic execution of Python on z3; used for the float lemma of C05 only"},
    ],
    "checks": checks,
    "not_applicable": na,
    "notes": "All checks: exit 0 = every obligation exhausted within the stated bounds and held; 1 = replayed violation; 2 = inconclusive (budget / unknown); 3 = harness or engine fault. See DESIGN.md section 7.",
}
json.dump(m, open(os.path.join(HERE, "MANIFEST.json"), "w"), indent=1)
print("claimed:", sorted(CHECKS), "not_applicable:", [x["property_id"] for x in na])
