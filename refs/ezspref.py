"""Independent reference for EZSP framing (header layouts per protocol version, UG100) and a structural
little-endian value codec.

The header functions know nothing of bellows.  The value codec walks a *type description* (integer width and
signedness, length-prefixed bytes, fixed / length-prefixed / open lists, structs in declared field order) and does its
own byte layout; the description is read from the schema's type objects (`_size`, `_signed`, `_prefix_length`,
`_length`, `_item_type`, `fields`) - the schema tables are the interface contract, the (de)serialisers are not used."""
from __future__ import annotations


def family(version):
    if version <= 4:
        return "legacy3"
    if version <= 7:
        return "legacy5"
    return "v8"


def header(version, seq, fid, response=True, callback=False):
    """Frame header an NCP of this protocol version writes / expects."""
    fc = (0x80 if response else 0x00) | (0x10 if callback else 0)
    fam = family(version)
    if fam == "legacy3":
        return [seq & 0xFF, fc, fid & 0xFF]
    if fam == "legacy5":
        return [seq & 0xFF, fc, 0xFF, 0x00, fid & 0xFF]
    return [seq & 0xFF, fc, 0x01, fid & 0xFF, (fid >> 8) & 0xFF]


def parse_header(version, data, strict=True):
    """-> (seq, frame_control_low, frame id, payload) or None when the frame is not framed for this version.

    strict=False judges only the field positions (frame-control / format bytes are not examined)."""
    d = list(data)
    fam = family(version)
    if fam == "legacy3":
        if len(d) < 3:
            return None
        if strict and d[2] == 0xFF:  # extended legacy header used with a v4 NCP: not its format
            return None
        return d[0], d[1], d[2], d[3:]
    if fam == "legacy5":
        if len(d) < 5 or (strict and (d[2] != 0xFF or d[3] != 0x00)):
            return None
        return d[0], d[1], d[4], d[5:]
    if len(d) < 5 or (strict and (d[2] & 0x03) != 0x01):
        return None
    return d[0], d[1], d[3] | (d[4] << 8), d[5:]


def parse_any(data):
    """Classify a host request by its framing alone -> (format, seq, fid, payload)."""
    d = list(data)
    if len(d) >= 5 and d[2] == 0xFF and d[3] == 0x00:
        return "legacy5", d[0], d[4], d[5:]
    if len(d) >= 5 and d[2] == 0x01:
        return "v8", d[0], d[3] | (d[4] << 8), d[5:]
    if len(d) >= 3:
        return "legacy3", d[0], d[2], d[3:]
    return None, None, None, d


# ---------------------------------------------------------------- structural value codec


class CodecError(Exception):
    pass


def _kind(typ):
    names = [c.__name__ for c in typ.__mro__]
    if "Struct" in names:
        return "struct"
    if hasattr(typ, "_size") and issubclass(typ, int):
        return "int"
    if "LVBytes" in names:
        return "lvbytes"
    if "FixedList" in names:
        return "fixedlist"
    if "LVList" in names:
        return "lvlist"
    if "List" in names:
        return "list"
    if issubclass(typ, (bytes,)):
        return "bytes"
    raise CodecError("no layout rule for %r" % (typ,))


def enc(typ, v):
    """Value -> list of byte values, little endian, declared order."""
    k = _kind(typ)
    if k == "int":
        n = typ._size
        x = int(v)
        if typ._signed and x < 0:
            x += 1 << (8 * n)
        if not 0 <= x < (1 << (8 * n)):
            raise CodecError("value out of range")
        return [(x >> (8 * i)) & 0xFF for i in range(n)]
    if k == "lvbytes":
        b = list(bytes(v))
        n = typ._prefix_length
        return [(len(b) >> (8 * i)) & 0xFF for i in range(n)] + b
    if k == "bytes":
        return list(bytes(v))
    if k == "fixedlist":
        items = list(v)
        if len(items) != typ._length:
            raise CodecError("fixed list length")
        return [b for it in items for b in enc(typ._item_type, it)]
    if k == "lvlist":
        items = list(v)
        n = typ._length_type._size
        return [(len(items) >> (8 * i)) & 0xFF for i in range(n)] + [b for it in items for b in enc(typ._item_type, it)]
    if k == "list":
        return [b for it in v for b in enc(typ._item_type, it)]
    if k == "struct":
        out = []
        vals = v if isinstance(v, dict) else {f.name: getattr(v, f.name) for f in typ.fields}
        for f in typ.fields:
            x = vals.get(f.name)
            if x is None:
                continue  # optional trailing field left out
            out += enc(f.type, x)
        return out
    raise CodecError(k)


def dec(typ, data):
    """-> (plain value, rest).  Plain values: int, bytes, list, dict (struct)."""
    d = list(data)
    k = _kind(typ)
    if k == "int":
        n = typ._size
        if len(d) < n:
            raise CodecError("short")
        x = sum(d[i] << (8 * i) for i in range(n))
        if typ._signed and x >= 1 << (8 * n - 1):
            x -= 1 << (8 * n)
        return x, d[n:]
    if k == "lvbytes":
        n = typ._prefix_length
        if len(d) < n:
            raise CodecError("short")
        ln = sum(d[i] << (8 * i) for i in range(n))
        if len(d) < n + ln:
            raise CodecError("short")
        return bytes(d[n:n + ln]), d[n + ln:]
    if k == "bytes":
        return bytes(d), []
    if k == "fixedlist":
        out = []
        for _ in range(typ._length):
            x, d = dec(typ._item_type, d)
            out.append(x)
        return out, d
    if k == "lvlist":
        n = typ._length_type._size
        if len(d) < n:
            raise CodecError("short")
        ln = sum(d[i] << (8 * i) for i in range(n))
        d = d[n:]
        out = []
        for _ in range(ln):
            x, d = dec(typ._item_type, d)
            out.append(x)
        return out, d
    if k == "list":
        out = []
        while d:
            x, d = dec(typ._item_type, d)
            out.append(x)
        return out, d
    if k == "struct":
        out = {}
        for f in typ.fields:
            if getattr(f, "optional", False) and not d:
                out[f.name] = None
                continue
            req = getattr(f, "requires", None)
            if req is not None:
                class _V:
                    pass
                o = _V()
                o.__dict__.update(out)
                try:
                    if not req(o):
                        out[f.name] = None
                        continue
                except Exception:
                    raise CodecError("requires")
            x, d = dec(f.type, d)
            out[f.name] = x
        return out, d
    raise CodecError(k)


def enc_schema(schema, values):
    """Encode a tuple/list of values against a dict schema (declared order) or a single struct type."""
    if isinstance(schema, dict):
        out = []
        for (name, typ), v in zip(schema.items(), values):
            out += enc(typ, v)
        return out
    if isinstance(schema, (tuple, list)):
        return []
    return enc(schema, values)


def dec_schema(schema, data):
    if isinstance(schema, dict):
        out = []
        d = list(data)
        for name, typ in schema.items():
            x, d = dec(typ, d)
            out.append(x)
        return out, d
    if isinstance(schema, (tuple, list)):
        return [], list(data)
    return dec(schema, data)


def plainify(v):
    """bellows/zigpy value -> the plain form dec() produces."""
    if v is None:
        return None
    if isinstance(v, (bytes, bytearray)):
        return bytes(v)
    if isinstance(v, bool):
        return int(v)
    if isinstance(v, int):
        return int(v)
    if isinstance(v, (list, tuple)):
        return [plainify(x) for x in v]
    if hasattr(v, "fields") and hasattr(v, "as_dict"):
        return {f.name: plainify(getattr(v, f.name)) for f in type(v).fields}
    return v


def sample(typ, salt=1):
    """A plain, in-range sample value for a type (varied by `salt`)."""
    k = _kind(typ)
    if k == "int":
        n = typ._size
        if typ._signed:
            return ((salt * 37) % (1 << (8 * n - 1))) - (salt % 2) * 3
        members = None
        try:
            members = [int(m) for m in typ] if hasattr(typ, "__members__") and "Flag" not in [c.__name__ for c in typ.__mro__] else None
        except TypeError:
            members = None
        if members:
            return members[salt % len(members)]
        return (salt * 0x3B + 1) % (1 << (8 * n))
    if k in ("lvbytes", "bytes"):
        return bytes((salt + i) & 0xFF for i in range(1 + salt % 3))
    if k == "fixedlist":
        return [sample(typ._item_type, salt + i) for i in range(typ._length)]
    if k in ("lvlist", "list"):
        return [sample(typ._item_type, salt + i) for i in range(1 + salt % 2)]
    if k == "struct":
        out = {}
        for i, f in enumerate(typ.fields):
            req = getattr(f, "requires", None)
            if req is not None:
                class _V:
                    pass
                o = _V()
                o.__dict__.update(out)
                if not req(o):
                    out[f.name] = None
                    continue
            out[f.name] = sample(f.type, salt + i)
        return out
    raise CodecError(k)


def sample_schema(schema, salt=1):
    if isinstance(schema, dict):
        return [sample(t, salt + i) for i, t in enumerate(schema.values())]
    if isinstance(schema, (tuple, list)):
        return []
    return sample(schema, salt)


def build(typ, plain):
    """Plain value -> instance of the schema type (for calling commands with typed arguments)."""
    k = _kind(typ)
    if k == "struct":
        return typ(**{f.name: build(f.type, plain[f.name]) for f in typ.fields if plain.get(f.name) is not None})
    if k in ("fixedlist", "lvlist", "list"):
        return typ([build(typ._item_type, x) for x in plain])
    return typ(plain)
