"""Specification-conforming NCP endpoint of the ASH link (UG101), for the C01 / C09 / C10 harnesses.

Independent of bellows: uses only refs/ashref.py.  Runs on the (virtual-time) event loop it is given.

* receiver: in-sequence DATA -> accept, deliver upward, ACK; out of sequence -> ACK when it is flagged as a
  retransmission (duplicate), NAK otherwise; undecodable frame -> NAK; CANCEL discards the frame in progress;
  RST -> restart numbering, answer RSTACK(software reset).
* sender: transmit window W (1..3), go-back-N: on a NAK retransmit everything unacknowledged from the NAK's number, on
  the retransmission timer retransmit everything unacknowledged, retransmissions carry the reTx flag; after MAX_ATTEMPTS
  transmissions of one frame the NCP enters the failed state and sends ERROR."""
from __future__ import annotations

from . import ashref as R


class RefNcp:
    T_ACK = 1.6
    MAX_ATTEMPTS = 5

    def __init__(self, loop, write, window=1, tx=0, rx=0):
        self.loop = loop
        self.write = write  # callable(bytes): puts one frame on the line towards the host
        self.W = window
        self.tx_seq = tx  # number of the next new DATA frame
        self.rx_seq = rx  # next frame number expected from the host
        self.queue = []  # submitted, not yet transmitted
        self.unacked = []  # [frm, payload, attempts]
        self.delivered = []  # payloads handed to the NCP's upper layer
        self.acked = []  # own payloads the NCP considers delivered
        self.submitted = []
        self.failed = False
        self.buf = []
        self.timer = None
        self.resets = 0
        self.on_data = None

    # ---- upper layer of the NCP
    def submit(self, payload):
        self.submitted.append(bytes(payload))
        self.queue.append(bytes(payload))
        self._pump()

    # ---- transmit side
    def _send(self, frame, cancel=False):
        self.write(bytes(R.wire(frame, cancel_prefix=cancel)))

    def _pump(self):
        if self.failed:
            return
        while self.queue and len(self.unacked) < self.W:
            p = self.queue.pop(0)
            ent = [self.tx_seq, p, 1]
            self.tx_seq = (self.tx_seq + 1) % 8
            self.unacked.append(ent)
            self._send(R.data_frame(ent[0], 0, self.rx_seq, list(p)))
        self._arm()

    def _arm(self):
        if self.timer is not None:
            self.timer.cancel()
            self.timer = None
        if self.unacked and not self.failed:
            self.timer = self.loop.call_later(self.T_ACK, self._timeout)

    def _retransmit(self, from_index=0):
        for ent in self.unacked[from_index:]:
            if ent[2] >= self.MAX_ATTEMPTS:
                self._fail()
                return
            ent[2] += 1
            self._send(R.data_frame(ent[0], 1, self.rx_seq, list(ent[1])))
        self._arm()

    def _timeout(self):
        self.timer = None
        if not self.failed:
            self._retransmit(0)

    def _fail(self):
        self.failed = True
        if self.timer is not None:
            self.timer.cancel()
            self.timer = None
        self._send(R.error_frame(0x51))

    def _ack(self, ack_num):
        """ackNum acknowledges every outstanding frame before it."""
        nums = [e[0] for e in self.unacked]
        # ack_num must be one of: a frame number in flight (acks those before it) or one past the last
        valid = nums + [(nums[-1] + 1) % 8] if nums else []
        if ack_num not in valid:
            return
        k = valid.index(ack_num)
        for e in self.unacked[:k]:
            self.acked.append(e[1])
        if k:
            self.unacked = self.unacked[k:]
            self._arm()

    # ---- receive side
    def feed(self, data):
        for b in data:
            if b in (R.XON, R.XOFF):
                continue
            if b == R.FLAG:
                cand, self.buf = self.buf, []
                if cand:
                    self._candidate(cand)
            elif b == R.CAN:
                self.buf = []
            elif b == R.SUB:
                self.buf = []
            else:
                self.buf.append(b)

    def _candidate(self, cand):
        try:
            fr = R.decode(R.unstuff(cand))
        except R.Bad:
            if not self.failed:
                self._send(R.nak_frame(self.rx_seq))
            return
        self._frame(fr)

    def _frame(self, fr):
        k = fr[0]
        if k == "RST":
            self.resets += 1
            self.tx_seq = self.rx_seq = 0
            self.queue, self.unacked = [], []
            self.failed = False
            self._arm()
            self._send(R.rstack_frame(R.SOFTWARE_RESET))
            return
        if self.failed:
            return
        if k == "DATA":
            _, frm, retx, ack, payload = fr
            self._ack(ack)
            if frm == self.rx_seq:
                self.rx_seq = (self.rx_seq + 1) % 8
                self.delivered.append(bytes(payload))
                self._send(R.ack_frame(self.rx_seq))
                if self.on_data is not None:
                    self.on_data(bytes(payload))
            elif retx:
                self._send(R.ack_frame(self.rx_seq))
            else:
                self._send(R.nak_frame(self.rx_seq))
            self._pump()
        elif k == "ACK":
            self._ack(fr[3])
            self._pump()
        elif k == "NAK":
            self._ack(fr[3])
            nums = [e[0] for e in self.unacked]
            if fr[3] in nums:
                self._retransmit(nums.index(fr[3]))
            self._pump()
        # RSTACK / ERROR from the host: ignored
