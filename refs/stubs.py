"""Environment stubs shared by the harnesses (all are assumptions of every claim that uses them)."""
from __future__ import annotations

import logging

logging.disable(logging.CRITICAL)


class FakeTransport:
    """Serial transport: records every write; close() reports connection_lost(None) like asyncio does."""

    def __init__(self, loop=None, protocol=None):
        self.writes = []
        self.closing = False
        self.loop = loop
        self.protocol = protocol
        self.on_write = None

    def write(self, data):
        self.writes.append((self.loop.time() if self.loop is not None else 0.0, data))
        if self.on_write is not None:
            self.on_write(data)

    def is_closing(self):
        return self.closing

    def close(self):
        if self.closing:
            return
        self.closing = True
        if self.loop is not None and self.protocol is not None:
            self.loop.call_soon(self.protocol.connection_lost, None)


class Upper:
    """Upper layer of AshProtocol (normally the Gateway): records what is handed up."""

    def __init__(self):
        self.events = []

    def connection_made(self, transport):
        self.events.append(("connection_made",))

    def data_received(self, data):
        self.events.append(("up", data))

    def reset_received(self, code):
        self.events.append(("reset", code))

    def error_received(self, code):
        self.events.append(("error", code))

    def connection_lost(self, exc):
        self.events.append(("lost", repr(exc)))

    def eof_received(self):
        self.events.append(("eof",))
