"""Independent reference for the ASH link layer, written from UG101 (not from bellows).

Everything is generic over ``int`` and symx ``SymInt`` values: the same code produces concrete bytes
in replay / validation runs and bit-vector terms in symbolic runs.  Nothing here imports bellows.
"""
from __future__ import annotations

from symx.core import SymBool, SymInt, sand, site, snot, sor

FLAG, ESC, XON, XOFF, SUB, CAN = 0x7E, 0x7D, 0x11, 0x13, 0x18, 0x1A
RESERVED = (FLAG, ESC, XON, XOFF, SUB, CAN)
STUFF_XOR = 0x20
T_RX_ACK_MIN, T_RX_ACK_MAX = 0.4, 3.2
MAX_ATTEMPTS = 5
SOFTWARE_RESET = 0x0B


def lfsr(n):
    """Pseudo-random sequence of UG101 4.3: seed 0x42, shift right, XOR 0xB8 when bit0 was 1."""
    out, r = [], 0x42
    for _ in range(n):
        out.append(r)
        r = (r >> 1) ^ (0xB8 if r & 1 else 0)
    return out


# first bytes as printed in UG101
assert lfsr(5) == [0x42, 0x21, 0xA8, 0x54, 0x2A]


def crc_ccitt(bs):
    """CRC-CCITT, polynomial 0x1021, initial value 0xFFFF, MSB first - bit by bit."""
    crc = 0xFFFF
    for b in bs:
        crc = crc ^ (b << 8)
        for _ in range(8):
            msb = (crc >> 15) & 1
            sh = (crc << 1) & 0xFFFF
            crc = site(msb == 1, sh ^ 0x1021, sh)
    return crc


def with_crc(bs):
    c = crc_ccitt(bs)
    return list(bs) + [(c >> 8) & 0xFF, c & 0xFF]


def randomize(data):
    return [d ^ r for d, r in zip(data, lfsr(len(data)))]


# ---- frame constructors: return the unstuffed frame bytes (control, data, crc hi, crc lo)

def data_frame(frm, retx, ack, payload):
    return with_crc([(frm << 4) | (retx << 3) | ack] + randomize(list(payload)))


def ack_frame(ack, nrdy=0, res=0):
    return with_crc([0x80 | (res << 4) | (nrdy << 3) | ack])


def nak_frame(ack, nrdy=0, res=0):
    return with_crc([0xA0 | (res << 4) | (nrdy << 3) | ack])


def rst_frame():
    return with_crc([0xC0])


def rstack_frame(code, version=2):
    return with_crc([0xC1, version, code])


def error_frame(code, version=2):
    return with_crc([0xC2, version, code])


def is_reserved(b):
    return sor(*[b == r for r in RESERVED])


def stuff(bs):
    """Byte stuffing.  Forks once per symbolic byte (reserved or not)."""
    out = []
    for b in bs:
        if is_reserved(b):
            out += [ESC, b ^ STUFF_XOR]
        else:
            out.append(b)
    return out


def wire(frame_bytes, cancel_prefix=False):
    return ([CAN] if cancel_prefix else []) + stuff(frame_bytes) + [FLAG]


# ---- decoding of one unstuffed frame candidate

class Bad(Exception):
    pass


def unstuff(bs):
    """Oracle decision 2: ESC followed by a byte whose un-escaped value is not reserved is invalid."""
    out, esc = [], False
    for b in bs:
        if esc:
            v = b ^ STUFF_XOR
            if not is_reserved(v):
                raise Bad("invalid escape")
            out.append(v)
            esc = False
        elif b == ESC:
            esc = True
        else:
            out.append(b)
    return out  # a dangling ESC is a don't-care input excluded by the harness


def decode(bs, on_crc=None):
    """``on_crc(cond)`` (optional) receives the CRC-valid condition instead of branching on it.

    Unstuffed bytes -> ('DATA', frm, retx, ack, payload) | ('ACK', res, nrdy, ack) | ('NAK', ...)
    | ('RST',) | ('RSTACK', version, code) | ('ERROR', version, code); raises Bad."""
    if len(bs) < 3:
        raise Bad("too short")
    body, rx = bs[:-2], bs[-2:]
    c = crc_ccitt(body)
    crc_ok = sand(rx[0] == ((c >> 8) & 0xFF), rx[1] == (c & 0xFF))
    if on_crc is not None:
        on_crc(crc_ok)
    elif not crc_ok:
        raise Bad("crc")
    ctl, data = body[0], body[1:]
    if (ctl & 0x80) == 0:
        return ("DATA", (ctl >> 4) & 7, (ctl >> 3) & 1, ctl & 7, randomize(data))
    if (ctl & 0xE0) == 0x80:
        return ("ACK", (ctl >> 4) & 1, (ctl >> 3) & 1, ctl & 7)
    if (ctl & 0xE0) == 0xA0:
        return ("NAK", (ctl >> 4) & 1, (ctl >> 3) & 1, ctl & 7)
    if ctl == 0xC0:
        if data:
            raise Bad("RST with data")
        return ("RST",)
    if ctl == 0xC1 or ctl == 0xC2:
        if len(data) != 2:
            raise Bad("length")
        if data[0] != 2:
            raise Bad("version")
        return ("RSTACK" if ctl == 0xC1 else "ERROR", data[0], data[1])
    raise Bad("unknown control byte")


def classify(ctl):
    """Frame class of a control byte per the UG101 table (concrete)."""
    if ctl & 0x80 == 0:
        return "DATA"
    if ctl & 0xE0 == 0x80:
        return "ACK"
    if ctl & 0xE0 == 0xA0:
        return "NAK"
    return {0xC0: "RST", 0xC1: "RSTACK", 0xC2: "ERROR"}.get(ctl)


# ---- reference host-side receiver (stream level)

class RefReceiver:
    """Specification automaton for the host's receive side.

    Events appended to ``self.events``:
      ("up", payload)         payload handed to the upper layer
      ("reset", code)         RSTACK / ERROR code reported upward
      ("tx", "ACK"|"NAK", n)  acknowledgement written back
    """

    def __init__(self, rx_seq=0):
        self.rx_seq = rx_seq
        self.buf = []
        self.discard = False
        self.events = []
        self.dontcare = False

    def feed(self, stream):
        for b in stream:
            # decision 1: XON/XOFF are removed wherever they occur
            if b == XON or b == XOFF:
                continue
            if b == FLAG:
                cand, self.buf = self.buf, []
                if self.discard:
                    self.discard = False
                    continue
                if cand:
                    self._frame(cand)
            elif b == CAN:
                self.buf = []
            elif b == SUB:
                self.buf = []
                self.discard = True
            else:
                self.buf.append(b)

    def _frame(self, cand):
        try:
            if cand[-1] == ESC:
                self.dontcare = True  # dangling escape before FLAG: excluded input
            fr = decode(unstuff(cand))
        except Bad:
            self.events.append(("tx", "NAK", self.rx_seq))
            return
        self.frame(fr)

    def frame(self, fr):
        k = fr[0]
        if k == "DATA":
            _, frm, retx, ack, payload = fr
            if frm == self.rx_seq:
                self.rx_seq = (self.rx_seq + 1) % 8
                self.events.append(("tx", "ACK", self.rx_seq))
                self.events.append(("up", payload))
            elif retx == 1:
                self.events.append(("tx", "ACK", self.rx_seq))
            else:
                self.events.append(("tx", "NAK", self.rx_seq))
        elif k == "RSTACK":
            self.rx_seq = 0
            self.events.append(("reset", fr[2]))
        elif k == "ERROR":
            self.events.append(("reset", fr[2]))
        # ACK / NAK / RST: nothing upward, nothing written


def parse_write(ctx, data, what="host write"):
    """Decode one transport.write() of the host with the reference codec.

    The FLAG terminator, the stuffing and the CRC are *asserted* (ctx.check), the frame class is
    branched on.  Returns (cancel_prefixed, decoded_frame)."""
    bs = list(data)
    ctx.check(len(bs) >= 4, what + ": too short")
    ctx.check(bs[-1] == FLAG, what + ": not terminated by FLAG", "write-no-flag")
    body = bs[:-1]
    cancel = False
    if body[0] == CAN:
        cancel = True
        body = body[1:]
    for b in body:
        ctx.check(snot(sor(b == FLAG, b == XON, b == XOFF, b == SUB, b == CAN)),
                  what + ": reserved byte inside a written frame", "write-reserved-byte")
    try:
        un = unstuff(body)
    except Bad:
        ctx.fail(what + ": invalid escape sequence written", "write-bad-escape")
    fr = decode(un, on_crc=lambda ok: ctx.check(ok, what + ": wrong CRC on written frame", "write-bad-crc"))
    return cancel, fr
