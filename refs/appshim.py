"""zigpy drift shim + ControllerApplication factory.

The pinned bellows expects ``zigpy.util.Requests`` which the installed zigpy 2.2.0 no longer ships.
This re-implements it (as it was in zigpy <= 0.7x) inside the harness process only; nothing under
/repo or /venv is touched."""
from __future__ import annotations

import asyncio

import zigpy.util


class _Request:
    def __init__(self, pending, sequence):
        self._pending = pending
        self._result = asyncio.get_event_loop().create_future()
        self._sequence = sequence

    @property
    def result(self):
        return self._result

    @property
    def sequence(self):
        return self._sequence

    def __enter__(self):
        self._pending[self.sequence] = self
        return self

    def __exit__(self, exc_type, exc_value, exc_traceback):
        if not self.result.done():
            self.result.cancel()
        self._pending.pop(self.sequence)
        return not exc_type


class _Requests(dict):
    def new(self, sequence):
        if sequence in self:
            from zigpy.exceptions import ControllerException

            raise ControllerException("duplicate %s TSN" % (sequence,))
        return _Request(self, sequence)


def install():
    if not hasattr(zigpy.util, "Requests"):
        zigpy.util.Requests = _Requests
        zigpy.util.Request = _Request


def make_app(extra=None):
    """ControllerApplication on the current event loop (must be running or set)."""
    install()
    import bellows.zigbee.application as A

    cfg = {"device": {"path": "/dev/null"}, "database_path": None}
    cfg.update(extra or {})
    return A.ControllerApplication(cfg)
