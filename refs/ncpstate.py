"""Stateful NCP model at EZSP-frame level for the network-settings round trip (C14).

The model keeps what a real NCP persists (EUI64 tokens, network parameters, security material, frame counters, link-key /
child / address tables, configuration) and answers the command families of every protocol version 4..14.  Requests are
decoded and responses encoded *by field name* against the version's schema tables (the tables are the interface
contract; the (de)serialisers of bellows are not used): a response is a dict of semantic values, the adapter lays them
out in the order and widths the version's response schema declares."""
from __future__ import annotations

from . import ezspref as E

FF8 = [0xFF] * 8
Z8 = [0] * 8
HASHED = 0x0084  # TRUST_CENTER_USES_HASHED_LINK_KEY (initial and current security bitmask)
NV3_EUI_TOKENS = (0xE12A, 0x1E12A)
MFG_STRING, MFG_BOARD_NAME, MFG_CUSTOM_EUI_64 = 0x01, 0x02, 0x0C
VAL_VERSION_INFO, VAL_NWK_FC, VAL_APS_FC = 0x11, 0x23, 0x24
CFG_ADDR_SIZE, CFG_SEC_LEVEL, CFG_KEY_SIZE = 0x05, 0x0D, 0x1E
KEY_TC_LINK, KEY_NETWORK = 0x01, 0x03  # EmberKeyType
SM_NETWORK, SM_TC_LINK = 0x01, 0x02  # SecurityManagerKeyType


def norm(name):
    return name.replace("_", "").lower()


STATUS = {  # semantic status -> numeric value per status type
    "EmberStatus": {"ok": 0x00, "erased": 0xB6, "index": 0xB1, "notjoined": 0x93, "invalid": 0x70, "full": 0xB4},
    "EzspStatus": {"ok": 0x00, "erased": 0x01, "index": 0x01, "notjoined": 0x01, "invalid": 0x01, "full": 0x01},
    "sl_Status": {"ok": 0x0000, "erased": 0x002D, "index": 0x0027, "notjoined": 0x0017, "invalid": 0x0002, "full": 0x001C},
}


class NcpState:
    def __init__(self, version, nv3=True, mfg_burned=False, key_slots=4, child_slots=4, addr_slots=4):
        self.V = version
        self.factory_eui = [0x11, 0x22, 0x33, 0x44, 0x55, 0x66, 0x77, 0x88]
        self.nv3 = nv3 and version >= 9
        self.nv3_eui = None
        self.mfg_custom = [0xA1, 0xA2, 0xA3, 0xA4, 0xA5, 0xA6, 0xA7, 0xA8] if mfg_burned else list(FF8)
        self.stored = None  # network parameters (dict by field name of EmberNetworkParameters)
        self.joined = False
        self.sec = None  # EmberInitialSecurityState as dict
        self.sec_log = []
        self.nwk_fc = 0x00012345  # left over from whatever network the stick was on before: the stack does not reset it on leave
        self.aps_fc = 0x00000777
        self.keys = [None] * key_slots  # (partner, key)
        self.children = [None] * child_slots  # (eui64, nwk, type)
        self.addr = [None] * addr_slots
        self.config = {CFG_KEY_SIZE: key_slots, CFG_ADDR_SIZE: addr_slots, CFG_SEC_LEVEL: 5}
        self.values = {}
        self.boots = 0
        self.active_eui = None
        self.refuse_partners = []  # link keys for these partner addresses are refused by the NCP
        self.events = []  # (name, values-by-name) to emit after the response
        self.log = []
        self.boot()

    # ------------------------------------------------------------------ helpers
    def stored_eui(self):
        """What the tokens say (takes effect at the next boot)."""
        if self.nv3_eui is not None:
            return list(self.nv3_eui)
        if self.mfg_custom != FF8:
            return list(self.mfg_custom)
        return list(self.factory_eui)

    def boot(self):
        """The NCP (re)starts: tokens are read, the stack is down until networkInit."""
        self.active_eui = self.stored_eui()
        self.joined = False
        self.boots += 1

    def eui(self):
        return list(self.active_eui)

    def _key_struct(self, kind):
        s = self.sec
        if kind == "network":
            return {"bitmask": 0x01 | 0x02, "type": KEY_NETWORK, "key": list(s["networkKey"]), "outgoingFrameCounter": self.nwk_fc,
                    "incomingFrameCounter": 0, "sequenceNumber": s["networkKeySequenceNumber"], "partnerEUI64": list(Z8)}
        return {"bitmask": 0x02 | 0x08, "type": KEY_TC_LINK, "key": list(s["preconfiguredKey"]), "outgoingFrameCounter": self.aps_fc,
                "incomingFrameCounter": 0, "sequenceNumber": 0, "partnerEUI64": list(FF8)}

    # ------------------------------------------------------------------ commands
    def handle(self, name, a):
        """a: request arguments by normalised field name (plain values).  -> dict of response values by normalised name."""
        self.log.append(name)
        h = getattr(self, "c_" + name, None)
        if h is None:
            return {"status": "ok"}
        return h(a) or {"status": "ok"}

    def c_version(self, a):
        return {"protocolversion": self.V, "stacktype": 2, "stackversion": 0x7430}

    def c_clearKeyTable(self, a):
        self.keys = [None] * len(self.keys)

    def c_tokenFactoryReset(self, a):
        self.stored, self.joined, self.sec = None, False, None
        self.children = [None] * len(self.children)
        self.nwk_fc = self.aps_fc = 0

    def c_getTokenData(self, a):
        if self.nv3 and a["token"] in NV3_EUI_TOKENS[:1]:
            return {"status": "ok", "value": bytes(self.nv3_eui if self.nv3_eui is not None else FF8)}
        return {"status": "invalid", "value": None}

    def c_setTokenData(self, a):
        if self.nv3 and a["token"] in NV3_EUI_TOKENS[:1]:
            d = list(a["tokendata"])
            self.nv3_eui = None if d == FF8 else d
            return {"status": "ok"}
        return {"status": "invalid"}

    def c_getMfgToken(self, a):
        tid = a["tokenid"]
        if tid == MFG_STRING:
            return {"tokendata": b"Acme" + b"\xff" * 12}
        if tid == MFG_BOARD_NAME:
            return {"tokendata": b"Stick-1" + b"\x00" * 9}
        if tid == MFG_CUSTOM_EUI_64:
            return {"tokendata": bytes(self.mfg_custom)}
        return {"tokendata": b"\xff\xff"}

    def c_setMfgToken(self, a):
        if a["tokenid"] == MFG_CUSTOM_EUI_64 and self.mfg_custom == FF8:
            self.mfg_custom = list(a["tokendata"])
            return {"status": "ok"}
        return {"status": "invalid"}

    def c_getEui64(self, a):
        return {"eui64": self.eui()}

    def c_getNodeId(self, a):
        return {"nodeid": 0x0000 if self.joined else 0xFFFE}

    def c_networkState(self, a):
        return {"status#raw": 2 if self.joined else 0}

    def _init(self, a):
        if self.stored is None:
            return {"status": "notjoined"}
        self.joined = True
        self.events.append(("stackStatusHandler", "up"))
        return {"status": "ok"}

    c_networkInit = _init
    c_networkInitExtended = _init

    def c_leaveNetwork(self, a):
        if not self.joined:
            return {"status": "invalid"}
        self.joined, self.stored = False, None
        self.events.append(("stackStatusHandler", "down"))

    def c_formNetwork(self, a):
        if self.joined or self.sec is None:
            return {"status": "invalid"}
        self.stored = dict(a["parameters"])
        self.joined = True
        self.events.append(("stackStatusHandler", "up"))

    def c_getNetworkParameters(self, a):
        if not self.joined:
            return {"status": "notjoined", "nodetype": 0, "parameters": E_ZERO}
        return {"status": "ok", "nodetype": 1, "parameters": dict(self.stored)}

    def c_setInitialSecurityState(self, a):
        if self.joined:
            return {"status": "invalid"}
        self.sec = dict(a["state"])
        self.sec_log.append(dict(a["state"]))

    def c_getCurrentSecurityState(self, a):
        if self.sec is None:
            return {"status": "notjoined", "state": {"bitmask": 0, "trustCenterLongAddress": list(Z8)}}
        return {"status": "ok", "state": {"bitmask": (self.sec["bitmask"] & HASHED) | 0x0010, "trustCenterLongAddress": self.eui()}}

    def c_getKey(self, a):
        if self.sec is None:
            return {"status": "invalid", "keystruct": self._zero_key()}
        return {"status": "ok", "keystruct": self._key_struct("network" if a["keytype"] == KEY_NETWORK else "tc")}

    def _zero_key(self):
        return {"bitmask": 0, "type": 0, "key": [0] * 16, "outgoingFrameCounter": 0, "incomingFrameCounter": 0, "sequenceNumber": 0, "partnerEUI64": list(Z8)}

    def c_exportKey(self, a):
        ctx = dict(a["context"])
        if self.sec is None:
            return {"status": "invalid", "key": [0] * 16, "context": ctx}
        k = self.sec["networkKey"] if ctx["core_key_type"] == SM_NETWORK else self.sec["preconfiguredKey"]
        return {"status": "ok", "key": list(k), "context": ctx}

    def c_getNetworkKeyInfo(self, a):
        s = self.sec
        return {"status": "ok", "networkkeyinfo": {"network_key_set": 1 if s else 0, "alternate_network_key_set": 0,
                                                   "network_key_sequence_number": s["networkKeySequenceNumber"] if s else 0,
                                                   "alt_network_key_sequence_number": 0, "network_key_frame_counter": self.nwk_fc}}

    def c_getKeyTableEntry(self, a):
        i = a["index"]
        if i >= len(self.keys):
            return {"status": "index", "keystruct": self._zero_key()}
        if self.keys[i] is None:
            return {"status": "erased", "keystruct": self._zero_key()}
        p, k = self.keys[i]
        return {"status": "ok", "keystruct": {"bitmask": 0x02 | 0x04 | 0x08, "type": 0x05, "key": list(k), "outgoingFrameCounter": 0,
                                              "incomingFrameCounter": 0, "sequenceNumber": 0, "partnerEUI64": list(p)}}

    def c_exportLinkKeyByIndex(self, a):
        i = a["index"]
        meta = {"bitmask": 0x02 | 0x04 | 0x08, "outgoing_frame_counter": 0, "incoming_frame_counter": 0, "ttl_in_seconds": 0}
        ctx = {"core_key_type": 0x04, "key_index": i & 0xFF, "derived_type": 0, "eui64": list(Z8), "multi_network_index": 0, "flags": 0, "psa_key_alg_permission": 0}
        if i >= len(self.keys) or self.keys[i] is None:
            return {"status": "index" if i >= len(self.keys) else "erased", "eui64": list(Z8), "plaintextkey": [0] * 16, "keydata": meta, "context": ctx}
        p, k = self.keys[i]
        ctx["eui64"] = list(p)
        return {"status": "ok", "eui64": list(p), "plaintextkey": list(k), "keydata": meta, "context": ctx}

    def c_addOrUpdateKeyTableEntry(self, a):
        p, k = list(a["address"]), list(a["keydata"])
        if p in self.refuse_partners:
            return {"status": "invalid"}
        for i, e in enumerate(self.keys):
            if e is not None and e[0] == p:
                self.keys[i] = (p, k)
                return {"status": "ok"}
        for i, e in enumerate(self.keys):
            if e is None:
                self.keys[i] = (p, k)
                return {"status": "ok"}
        return {"status": "full"}

    def c_importLinkKey(self, a):
        i = a["index"]
        if i >= len(self.keys):
            return {"status": "index"}
        if list(a["address"]) in self.refuse_partners:
            return {"status": "invalid"}
        self.keys[i] = (list(a["address"]), list(a["key"]))

    def c_getChildData(self, a):
        i = a["index"]
        zero = {"eui64": list(Z8), "type": 0, "id": 0xFFFF, "phy": 0, "power": 0, "timeout": 0, "timeout_remaining": 0}
        if i >= len(self.children) or self.children[i] is None:
            return {"status": "notjoined", "childid": 0xFFFF, "childeui64": list(Z8), "childtype": 0, "childdata": zero}
        e, n, ty = self.children[i]
        d = dict(zero, eui64=list(e), id=n, type=ty)
        return {"status": "ok", "childid": n, "childeui64": list(e), "childtype": ty, "childdata": d}

    def c_setChildData(self, a):
        i = a["index"]
        if i >= len(self.children):
            return {"status": "index"}
        d = a["childdata"]
        self.children[i] = (list(d["eui64"]), d["id"], d["type"])

    def c_getAddressTableRemoteNodeId(self, a):
        i = a["addresstableindex"]
        e = self.addr[i] if i < len(self.addr) else None
        return {"nodeid": e[1] if e else 0xFFFF}

    def c_getAddressTableRemoteEui64(self, a):
        i = a["addresstableindex"]
        e = self.addr[i] if i < len(self.addr) else None
        return {"eui64": list(e[0]) if e else list(Z8)}

    def c_getAddressTableInfo(self, a):
        i = a["index"]
        if i >= len(self.addr):
            return {"status": "index", "nwk": 0xFFFF, "eui64": list(Z8)}
        e = self.addr[i]
        return {"status": "ok", "nwk": e[1] if e else 0xFFFF, "eui64": list(e[0]) if e else list(Z8)}

    def c_getValue(self, a):
        vid = a["valueid"]
        if vid == VAL_VERSION_INFO:
            return {"status": "ok", "value": bytes([0x40, 0x01, 7, 4, 1, 0])}
        return {"status": "ok", "value": bytes(self.values.get(vid, [0x01]))}

    def c_setValue(self, a):
        vid, v = a["valueid"], list(a["value"])
        if vid in (VAL_NWK_FC, VAL_APS_FC):
            if self.joined:
                return {"status": "invalid"}
            n = sum(b << (8 * i) for i, b in enumerate(v))
            if vid == VAL_NWK_FC:
                self.nwk_fc = n
            else:
                self.aps_fc = n
        self.values[vid] = v

    def c_getConfigurationValue(self, a):
        return {"status": "ok", "value": self.config.get(a["configid"], 0)}

    def c_setConfigurationValue(self, a):
        self.config[a["configid"]] = a["value"]


E_ZERO = {"extendedPanId": list(Z8), "panId": 0, "radioTxPower": 0, "radioChannel": 0, "joinMethod": 0, "nwkManagerId": 0, "nwkUpdateId": 0, "channels": 0}


class Adapter:
    """Binds an NcpState to a recording gateway: decodes the host's request frames, encodes the model's answers."""

    def __init__(self, loop, ez, state, rtt=0.005):
        self.loop, self.ez, self.state, self.rtt = loop, ez, state, rtt
        self.requests = []
        self.errors = []

    def _status(self, typ, sem):
        tn = typ.__name__
        table = STATUS.get(tn)
        if table is None:
            for c in typ.__mro__:
                if c.__name__ in STATUS:
                    table = STATUS[c.__name__]
                    break
        return table[sem]

    def _encode(self, rx, resp, version):
        if isinstance(rx, dict):
            out = []
            for fname, typ in rx.items():
                key = norm(fname)
                if key == "status" and "status#raw" in resp:
                    v = resp["status#raw"]
                elif key == "status":
                    v = self._status(typ, resp.get("status", "ok"))
                else:
                    v = resp[key]
                out += E.enc(typ, self._fit(typ, v))
            return out
        if isinstance(rx, (tuple, list)):
            return []
        # struct response (GetTokenDataRsp): fields by name
        vals = {}
        for f in rx.fields:
            key = norm(f.name)
            if key == "status":
                vals[f.name] = self._status(f.type, resp.get("status", "ok"))
            else:
                vals[f.name] = resp.get(key)
                if vals[f.name] is None and getattr(f, "requires", None) is None:
                    vals[f.name] = b""  # a mandatory length-prefixed field of a failed read is empty
        return E.enc(rx, vals)

    def _fit(self, typ, v):
        """Project a semantic struct dict onto the fields the version's struct type declares."""
        if E._kind(typ) == "struct" and isinstance(v, dict):
            byn = {norm(k): x for k, x in v.items()}
            return {f.name: self._fit(f.type, byn[norm(f.name)]) for f in typ.fields}
        return v

    def on_send(self, rec):
        ts, data, task = rec
        ph = self.ez._protocol
        fmt, seq, fid, payload = E.parse_any(data)
        want = E.family(ph.VERSION)
        if fmt != want:
            self.errors.append("request framed %s while the host runs the v%d handler" % (fmt, ph.VERSION))
            return
        ent = ph.COMMANDS_BY_ID.get(fid)
        if ent is None:
            self.errors.append("unknown frame id 0x%X" % fid)
            return
        name, tx, rx = ent[0], ph.COMMANDS[ent[0]][1], ent[2]
        try:
            args, rest = E.dec_schema(tx, payload)
        except Exception as e:  # noqa
            self.errors.append("request %s does not decode: %r" % (name, e))
            return
        a = {norm(k): v for k, v in zip(tx, args)} if isinstance(tx, dict) else {}
        self.requests.append((name, a))
        resp = self.state.handle(name, a)
        body = self._encode(rx, resp, ph.VERSION)
        hdr = {"legacy3": [seq, 0x80, fid & 0xFF], "legacy5": [seq, 0x80, 0xFF, 0x00, fid & 0xFF], "v8": [seq, 0x80, 0x01, fid & 0xFF, fid >> 8]}[fmt]
        self.loop.call_later(self.rtt, self.ez.frame_received, bytes(hdr + body))
        evs, self.state.events = self.state.events, []
        for ev_name, sem in evs:
            self.loop.call_later(self.rtt * 2, self._event, ev_name, sem)

    def _event(self, name, sem):
        import bellows.types as t

        ph = self.ez._protocol
        fid, _tx, rx = ph.COMMANDS[name]
        typ = list(rx.values())[0]
        val = {"up": int(t.sl_Status.NETWORK_UP) if typ.__name__ == "sl_Status" else int(t.EmberStatus.NETWORK_UP),
               "down": int(t.sl_Status.NETWORK_DOWN) if typ.__name__ == "sl_Status" else int(t.EmberStatus.NETWORK_DOWN)}[sem]
        fmt = E.family(ph.VERSION)
        hdr = {"legacy3": [0x55, 0x90, fid & 0xFF], "legacy5": [0x55, 0x90, 0xFF, 0x00, fid & 0xFF], "v8": [0x55, 0x90, 0x01, fid & 0xFF, fid >> 8]}[fmt]
        self.ez.frame_received(bytes(hdr + E.enc(typ, val)))
