"""Full host stack (real EZSP + real Gateway + real AshProtocol) wired to a simulated NCP (reference ASH endpoint +
EZSP responder) over a line model, on a virtual-time loop.  Used by C09 and C10.

Only zigpy.serial.create_serial_connection is bypassed (the wiring of bellows.uart._connect is reproduced by hand)."""
from __future__ import annotations

import asyncio

from . import ashref as R
from . import ezspref as E
from .ncpash import RefNcp
from .stubs import FakeTransport

ID_VERSION, ID_NOP, ID_GETCFG, ID_SETCFG, ID_GETVAL, ID_SETVAL, ID_INVALID, ID_ECHO = 0x00, 0x05, 0x52, 0x53, 0xAA, 0xAB, 0x58, 0x81
ERROR_VERSION_NOT_SET, ERROR_INVALID_FRAME_ID = 0x30, 0x36


class NcpEzsp:
    """EZSP responder of protocol version V on top of the reference ASH endpoint."""

    def __init__(self, loop, version, write, window=1):
        self.loop = loop
        self.V = version
        self.ash = RefNcp(loop, write, window=window)
        self.ash.on_data = self.on_request
        self.latched = False
        self.requests = []  # (time, framing, seq, frame id, payload, verdict)
        self.config = {}
        self.values = {}
        self.silent = False  # stops answering EZSP requests (still acknowledges at link level)
        self.delay = 0.0
        self._resets_seen = 0

    def family(self):
        return E.family(self.V)

    def spontaneous_reset(self, code):
        """The NCP restarts on its own: link state and negotiation are gone, it announces itself with RSTACK(code)."""
        a = self.ash
        a.tx_seq = a.rx_seq = 0
        a.queue, a.unacked, a.buf = [], [], []
        a.failed = False
        a._arm()
        self.latched = False
        a._send(R.rstack_frame(code))

    def on_request(self, payload):
        if self.ash.resets != self._resets_seen:  # an RST since the last request: negotiation state is gone
            self._resets_seen = self.ash.resets
            self.latched = False
        fmt, seq, fid, body = E.parse_any(payload)
        verdict = self._handle(fmt, seq, fid, body)
        self.requests.append((round(self.loop.time(), 4), fmt, seq, fid, bytes(body), verdict))

    def _reply(self, fmt, seq, fid, body):
        if self.silent:
            return
        hdr = {"legacy3": [seq, 0x80, fid & 0xFF], "legacy5": [seq, 0x80, 0xFF, 0x00, fid & 0xFF],
               "v8": [seq, 0x80, 0x01, fid & 0xFF, (fid >> 8) & 0xFF]}[fmt]
        data = bytes(hdr + list(body))
        if self.delay:
            self.loop.call_later(self.delay, self.ash.submit, data)
        else:
            self.ash.submit(data)

    def _st(self, code):
        """Status field: one byte up to protocol version 13, the 32-bit unified status from 14 on."""
        return [code] if self.V < 14 else [code, 0, 0, 0]

    def _handle(self, fmt, seq, fid, body):
        if fmt is None:
            return "garbage"
        if fid == ID_VERSION:
            # answered in the framing it was asked in; the version is latched by a query in the NCP's own framing
            # that asks for the NCP's own version
            if fmt == self.family() and body and body[0] == self.V:
                self.latched = True
            elif self.V == 4 and fmt == "legacy3":
                self.latched = bool(body) and body[0] == 4
            self._reply(fmt, seq, fid, [self.V, 0x02, 0x30, 0x74])
            return "version"
        if fmt != self.family():
            return "ignored-wrong-framing"
        if not self.latched:
            self._reply(fmt, seq, ID_INVALID, [ERROR_VERSION_NOT_SET])
            return "version-not-set"
        if fid == ID_NOP:
            self._reply(fmt, seq, fid, [])
        elif fid == ID_GETCFG:
            v = self.config.get(body[0], 0)
            self._reply(fmt, seq, fid, self._st(0) + [v & 0xFF, v >> 8])
        elif fid == ID_SETCFG:
            self.config[body[0]] = body[1] | (body[2] << 8)
            self._reply(fmt, seq, fid, self._st(0))
        elif fid == ID_GETVAL:
            v = self.values.get(body[0], [0x01])
            self._reply(fmt, seq, fid, self._st(0) + [len(v)] + list(v))
        elif fid == ID_SETVAL:
            self.values[body[0]] = list(body[2:2 + body[1]])
            self._reply(fmt, seq, fid, self._st(0))
        elif fid == ID_ECHO:
            self._reply(fmt, seq, fid, list(body))
        else:
            self._reply(fmt, seq, ID_INVALID, [ERROR_INVALID_FRAME_ID])
            return "unknown-command"
        return "ok"


class Wire:
    """FIFO line, fixed latency per direction, optional per-frame hook deciding a fault."""

    def __init__(self, loop, latency=0.01):
        self.loop = loop
        self.latency = latency
        self.sink = {}
        self.not_before = {"h": 0.0, "n": 0.0}
        self.log = []
        self.fault = None  # callable(direction, index, data) -> "deliver" | "drop" | "corrupt" | "duplicate"
        self.count = {"h": 0, "n": 0}
        self.cut = False  # line dead: nothing is delivered any more

    def send(self, d, data):
        i = self.count[d]
        self.count[d] += 1
        f = self.fault(d, i, data) if self.fault is not None else "deliver"
        self.log.append((round(self.loop.time(), 4), d, i, f, bytes(data).hex()))
        if f == "drop" or self.cut:
            return
        out = bytes(data)
        if f == "corrupt":
            b = bytearray(out)
            b[1 if len(b) > 2 else 0] ^= 0x04
            out = bytes(b)
        when = max(self.loop.time() + self.latency, self.not_before[d] + 1e-4)
        self.not_before[d] = when
        self.loop.call_at(when, self._deliver, d, out)
        if f == "duplicate":
            self.not_before[d] = when + 1e-4
            self.loop.call_at(when + 1e-4, self._deliver, d, out)

    def _deliver(self, d, data):
        if not self.cut:
            self.sink[d](data)


class Stack:
    """Host side, wired like bellows.uart._connect + EZSP.connect (use_thread=False)."""

    def __init__(self, loop, version, path="/dev/ttyUSB0", latency=0.01, window=1):
        import bellows.uart as uart
        from bellows.ash import AshProtocol
        from bellows.ezsp import EZSP, v4
        from bellows.thread import ThreadsafeProxy

        self.loop = loop
        self.wire = Wire(loop, latency)
        self.ncp = NcpEzsp(loop, version, lambda data: self.wire.send("n", data), window=window)
        self.ez = EZSP({"path": path, "baudrate": 115200, "flow_control": None})
        self.connection_done = loop.create_future()
        self.gateway = uart.Gateway(self.ez, None, self.connection_done)
        self.ash = AshProtocol(self.gateway)
        self.transport = FakeTransport(loop, self.ash)
        self.transport.on_write = lambda data: self.wire.send("h", data)
        self.wire.sink["h"] = self.ncp.ash.feed
        self.wire.sink["n"] = self._to_host
        self.ash.connection_made(self.transport)
        self.ez._gw = ThreadsafeProxy(self.gateway, loop)
        self.ez._protocol = v4.EZSPv4(self.ez.handle_callback, self.ez._gw)

    def _to_host(self, data):
        if not self.transport.closing:  # a closed port delivers nothing
            self.ash.data_received(data)

    def host_requests(self):
        """EZSP request frames the host put on the wire, decoded independently: (time, framing, seq, id, first DATA only)."""
        from . import ashref as R

        out = []
        for (tm, d, i, f, hx) in self.wire.log:
            if d != "h":
                continue
            bs = list(bytes.fromhex(hx))
            if bs and bs[0] == R.CAN:
                bs = bs[1:]
            try:
                fr = R.decode(R.unstuff(bs[:-1]))
            except R.Bad:
                continue
            if fr[0] == "DATA" and fr[2] == 0:
                fmt, seq, fid, body = E.parse_any(fr[4])
                out.append((tm, fmt, seq, fid, bytes(body)))
            elif fr[0] == "RST":
                out.append((tm, "RST", None, None, b""))
        return out


async def outcome(coro):
    loop = asyncio.get_running_loop()
    try:
        r = await coro
        return ("ok", loop.time(), r)
    except asyncio.CancelledError:
        return ("cancelled", loop.time(), None)
    except Exception as e:
        return (type(e).__name__, loop.time(), e)
