FIX_COMMITS = []
NOT_APPLICABLE = {}
SYMX = "bounded symbolic execution of the real source on z3 (symx): every feasible path class explored, assertions discharged as unsat queries, counterexamples replayed concretely"
CHECKS = {
    "C04": {
        "text": "Inductive step from every receiver state (expected/next numbers 3-bit symbolic, failed flag) with one frame of every type whose fields are all symbolic, injected as object and as reference-encoded wire bytes, plus k-frame sequences against a lock-step reference receiver: all feasible paths of the shadow-compiled ash.py are exhausted and every oracle clause is an unsat query. Holds for all field values inside the bounds; histories longer than k rest on the inductive step.",
        "note": "Trusted: z3, the symx proxies/byte+CRC models (validated path by path against the unshadowed import), the UG101-derived reference codec. Bounds: payload <= 1-2 bytes, k <= 2-3.",
        "technique": SYMX,
    },
}
