FIX_COMMITS = ["8e05df9", "2576076", "a63e1bf", "136b601"]
NOT_APPLICABLE = {}
SYMX = "bounded symbolic execution of the real source on z3 (symx): every feasible path class explored, assertions discharged as unsat queries, counterexamples replayed concretely"
CHECKS = {
    "C04": {
        "text": "Inductive step from every receiver state (expected/next numbers 3-bit symbolic, failed flag) with one frame of every type whose fields are all symbolic, injected as object and as reference-encoded wire bytes, plus k-frame sequences against a lock-step reference receiver: all feasible paths of the shadow-compiled ash.py are exhausted and every oracle clause is an unsat query. Holds for all field values inside the bounds; histories longer than k rest on the inductive step.",
        "note": "Trusted: z3, the symx proxies/byte+CRC models (validated path by path against the unshadowed import), the UG101-derived reference codec. Bounds: payload <= 1-2 bytes, k <= 2-3.",
        "technique": SYMX,
    },
    "C18": {
        "text": "The status family and the 8-bit code are solver variables realised at enum construction: all 2x256 legacy codes, every defined unified status plus undefined 32-bit samples, and every two-step history (any first conversion, then each steering status) are explored as solver-decided path classes of the real from_ember_status; totality, pass-through, OK-iff-success and the steering-code table are asserted on each. Exhaustive over the 8-bit families.",
        "note": "Trusted: z3, zigpy's enum machinery, the literal table of expected unified codes in checks/c18.py. Undefined unified 32-bit statuses only by listed samples.",
        "technique": SYMX,
    },
    "C19": {
        "text": "Real ControllerApplication._watchdog_feed with the feed counter, the start value of the consecutive-failure count and the protocol version as solver terms (so the modulo-period and threshold tests fork on them) and every feed's outcome/strike point a solver-decided choice: for every path the raise-iff-exceeded rule, the clearing on success and the keep-alive command (nop / counter read / periodic read-and-clear) are checked against a reference count. Because the start state is symbolic over all reachable counts, L feeds cover longer histories inductively.",
        "note": "Trusted: z3, symx proxies, the command-level EZSP stub; application object allocated without zigpy's constructor. Bounds: L=4 (quick) / 6 (thorough) feeds from every start state.",
        "technique": SYMX,
    },
    "C15": {
        "text": "Real Multicast (start-up scan, subscribe, unsubscribe) against a command-level model of the NCP multicast table; table size, initial table (each group at most once), operation sequence and the answer to every table write (success / rejection / timeout not applied / timeout applied) are solver-decided choices explored exhaustively within the bounds. After every step: mirror relation host-view = NCP entries with non-zero endpoint, index partition (free xor used by one group), unchanged free count after any failed call, no write on re-subscribe, failure when full; closing probe through subscribe() only.",
        "note": "Trusted: z3, the NCP table model (a rejected or lost write changes nothing; an applied-but-timed-out write suspends the mirror demand until the next start-up scan). Host view read from the anchored _multicast/_available state. Bounds: sizes 0..2, 2 groups, 3 operations (quick); sizes 0..4, 3 groups, 3-4 operations (thorough).",
        "technique": SYMX,
    },
    "C16": {
        "text": "Real EZSP.write_config with the real per-version schemas and DEFAULT_CONFIG against a command-level NCP whose reported value for every setting is a fully symbolic 16-bit term (the grow-only comparison forks on it) plus a symbolic unreadable flag; version, override (any key of the version's schema: value or disabled, plus a second override) are solver-decided. Asserted per path: each setting written at most once, an own default for a capacity setting is written only if strictly larger than the reported value (unsat query over the symbolic value), user values written verbatim, disabled settings never written, packet-buffer count last, and the write sequence identical under accept / reject / alternating answers.",
        "note": "Trusted: z3, symx proxies, the command-level NCP stub, the literal list of capacity settings. User override values are concrete (voluptuous rejects proxies). Bounds: at most two overrides; override harness reports 0 for untouched settings.",
        "technique": SYMX,
    },
    "C03": {
        "text": "bellows/ash.py is compiled from source into a namespace with solver-aware bytes/bytearray/frozenset/crc_hqx, so control fields (3-bit numbers, flag bits, 8-bit reset codes), payload bytes, CRC bytes and 1-2-bit corruption masks stay symbolic through the real to_bytes/from_bytes/parse_frame/_stuff_bytes/_unstuff_bytes/_write_frame. Against the independent reference codec every path asserts: encoding and written wire bytes equal the reference, parse_frame(reference bytes) returns the fields, any accepted byte string is the canonical encoding of its result and classified per the control-byte table, stuffing output has no reserved byte and unstuffs back, a valid frame with one or two flipped bits is rejected (unsat), LFSR sequence for all lengths 0..256, long payloads up to 200 bytes.",
        "note": "Trusted: z3, symx byte/CRC models (validated path-wise against the unshadowed import), refs/ashref.py. Bounds: symbolic payload <= 2 (quick) / 5 (thorough) bytes, accepted strings <= 5 / 7 bytes, corruption of frames <= 4 / 6 bytes; payloads 129..200 bytes as concrete pattern with two symbolic bytes.",
        "technique": SYMX,
    },
    "C02": {
        "text": "Shadow-compiled ash.py: every stream byte is an unconstrained 8-bit solver variable and the expected frame number a 3-bit one; the real data_received is fed chunk by chunk (one cut / all 2^(n-1) partitions) while the specification automaton gets the same symbolic bytes whole. On every feasible path (CRC-valid frames are constructed by the solver) the event traces - payloads handed up, reset codes, ACK/NAK kinds and numbers written - are proved equal, no exception leaves data_received, and the final expected number agrees. Longer streams through a structured family (reference-encoded DATA/RSTACK frames, corrupted frames, reserved bytes) and the memory bound as an inductive step over the buffer pre-state.",
        "note": "Trusted: z3, symx byte/CRC models (validated path-wise against the unshadowed import), the reference decoder and its documented oracle decisions (dangling ESC before FLAG is don't-care). Bounds: free streams <= 5 bytes whole / 4 bytes all partitions (quick), 6 / 5 (thorough); structured 2-3 segments.",
        "technique": SYMX,
    },
    "C05": {
        "text": "Real AshProtocol send path on a virtual-time loop with a scripted peer: start frame numbers, the peer's reaction to each DATA transmission (covering ACK, silence, NAK, ACK with a symbolic non-covering number, ERROR with a symbolic 8-bit code, piggy-backed acknowledgement), its instant relative to the acknowledgement timer and the RSTACK code are solver-decided; every feasible reaction schedule inside the bounds is one path and a wire-trace monitor written from the property text checks attempt budget, stable frame number/payload, reTx flag, repeat timing inside [0.4, 3.2] s, outcome vs. covering acknowledgement, exactly one upward notification per failure with its reason (symbolic code proved equal), silence until RSTACK, one outstanding frame, consecutive numbering and restart at zero. The float clamp is a CrossHair lemma over all doubles plus an enumerated replayable companion.",
        "note": "Trusted: z3, asyncio on the virtual-time loop, CrossHair for the lemma. Frames are injected as objects (wire decoding is C02/C03). Bounds: 1-3 queued sends, free reactions for the first 5-7 DATA transmissions, at most 1-2 off-instant reactions and one stale ACK per run.",
        "technique": SYMX + "; CrossHair (symbolic floats) for the timeout-clamp lemma",
    },
    "C11": {
        "text": "Real Gateway + real AshProtocol + recording transport/application on a virtual-time loop; NCP frames come as wire bytes from the independent reference encoder. Solver-decided: scenario (RSTACK / ERROR in time, nothing, late, twice, before the request, other frame types, connection loss clean / with error / EOF, early or just before the timeout), the 8-bit code (all 256 values of RSTACK and of ERROR are explored as path classes), the frame numbers before the reset, which waiters are pending. Per path: request bytes 1A C0 38 BC 7E, completion iff a software-reset RSTACK arrived while waiting and at that instant, TimeoutError exactly at the reset timeout otherwise, every other code reported as failure exactly once with its code and completing nothing, a second request after a timed-out one is a full request, numbering restarts at zero in both directions, every waiter released with the connection error on loss.",
        "note": "Trusted: z3 (choices only; all data is realised), asyncio on the virtual-time loop, refs/ashref.py. Known finding (open): ERROR frame with code 0x0B completes the handshake. Bounds: at most two consecutive reset requests; loss at two instants.",
        "technique": SYMX,
    },
    "C06": {
        "text": "Real ProtocolHandler.command/__call__ (v4, v5, v8, v13, v14 header families) with the real EZSP.frame_received/handle_callback on a virtual-time loop; gateway outcome and an EZSP-frame-level NCP script are solver-decided: per request {reply, late reply, never, duplicate, callback before/after, reply under a foreign sequence number, link failure}, the priority class of each of 2-4 concurrent callers, the start sequence number around the modulo-256 wrap, a cancellation point. Every feasible combination is one path; asserted per path: return value = payload of the reply carrying the caller's own sequence number at the reply instant, TimeoutError exactly at +10 s, nothing else completes a call, each unsolicited callback frame reaches every registered callback once, no request frame while another awaits its response, start order by class then arrival, sequence numbers +1 mod 256, semaphore free afterwards (probe command).",
        "note": "Trusted: z3 (choices), asyncio on the virtual-time loop, zigpy's PriorityDynamicBoundedSemaphore, refs/ezspref.py frame builder. Assumption: callback frames never carry a pending sequence number. Bounds: 2-4 callers, three representative commands, sequence starts {0,1,253,254,255}.",
        "technique": SYMX,
    },
    "C08": {
        "text": "Real EZSP.frame_received and protocol handler per version with an optional pending command registered through the real command(); the incoming frame is a reference-encoded valid frame under solver-decided mutation parameters (truncation to every length, one substituted byte by position and boundary value, frame-ID substitution over the whole command table with the pending sequence number, unknown IDs, foreign sequence numbers) plus free short strings; an independent header parser and structural decoder judges whether the frame is a known, decodable frame of the version. Per path: nothing escapes the entry point, a pending call is completed only by a frame with its sequence number and its frame ID and then with exactly that frame's values, no callback fires for a frame that does not decode, a command issued afterwards completes.",
        "note": "Trusted: z3 (choices), refs/ezspref.py (self-tested against every schema of every version), asyncio virtual loop. Frame-control bytes are not judged. Bounds: one mutation per frame, boundary values for substituted bytes, 12 base frames, 5 pending commands, free strings <= 1-2 bytes.",
        "technique": SYMX,
    },
}
